package main

// E13.sibling-eval-context — cross-check of sibling implementations (Engler et al.): the
// implementations of one expression-interface method (ReferenceTargets, HoverAtPos,
// SemanticTokens, …) evaluate hcl expressions for the same purpose and must agree on whether
// they pass an evaluation context. For HCL-JSON expressions the two differ observably:
// Value(nil) returns JSON strings verbatim (no template parsing), Value(&hcl.EvalContext{})
// parses "${…}" templates like native syntax — so one deviating sibling makes JSON and native
// files disagree for that query.

import (
	"fmt"
	"go/ast"
	"go/token"
	"go/types"
	"sort"
	"strings"
)

func runEvalContextAgreement(p *Prog, r *Report) {
	type site struct {
		fn    *Func
		call  *ast.CallExpr
		isNil bool
	}
	groups := map[string][]site{}
	nSites := 0
	for _, fn := range p.Funcs {
		if fn.Body == nil || !strings.Contains(fn.Pkg.PkgPath, "hcl-lang/decoder") {
			continue
		}
		root := rootOf(fn)
		if root.Obj == nil {
			continue
		}
		sig, ok := root.Obj.Type().(*types.Signature)
		if !ok || sig.Recv() == nil || !implementsModuleInterface(p, root.Obj) {
			continue
		}
		info := fn.Info()
		ast.Inspect(fn.Body, func(n ast.Node) bool {
			if lit, ok := n.(*ast.FuncLit); ok && lit != fn.Lit {
				return false
			}
			call, ok := n.(*ast.CallExpr)
			if !ok || len(call.Args) != 1 {
				return true
			}
			f := calleeOf(info, call)
			if f == nil || fname(f) != "Value" {
				return true
			}
			fs, ok := f.Type().(*types.Signature)
			if !ok || fs.Params().Len() != 1 || !typeIsPtrTo(fs.Params().At(0).Type(), "hcl/v2", "EvalContext") {
				return true
			}
			nSites++
			groups[root.Obj.Name()] = append(groups[root.Obj.Name()], site{fn, call, isNilIdent(info, call.Args[0])})
			return true
		})
	}
	var names []string
	for k := range groups {
		names = append(names, k)
	}
	sort.Strings(names)
	nGroups := 0
	for _, k := range names {
		ss := groups[k]
		nNil := 0
		for _, s := range ss {
			if s.isNil {
				nNil++
			}
		}
		if len(ss) < 3 {
			continue // too few siblings to cross-check
		}
		nGroups++
		majorityNil := nNil*2 > len(ss)
		ord := map[string]int{}
		for _, s := range ss {
			key := fmt.Sprintf("%s %s", k, exprStr(s.call))
			ord[s.fn.Name+key]++
			if ord[s.fn.Name+key] > 1 {
				key += fmt.Sprintf("#%d", ord[s.fn.Name+key])
			}
			switch {
			case nNil == 0 || nNil == len(ss) || s.isNil == majorityNil && nNil*2 != len(ss):
				r.Add("E13.sibling-eval-context", s.fn.Name, key, p.Pos(s.call), OK,
					fmt.Sprintf("agrees with the %d evaluation sites in implementations of %s", len(ss), k), true)
			default:
				how := "an (empty) evaluation context"
				if majorityNil {
					how = "nil"
				}
				r.Add("E13.sibling-eval-context", s.fn.Name, key, p.Pos(s.call), Violated,
					fmt.Sprintf("the other implementations of %s evaluate expressions with %s (%d of %d sites); this one deviates, so HCL-JSON strings are template-parsed differently here than in its siblings", k, how, len(ss)-min(nNil, len(ss)-nNil), len(ss)), true)
			}
		}
	}
	r.Counts["E13.eval-sites-in-interface-methods"] = nSites
	r.Counts["E13.eval-sibling-groups"] = nGroups
	r.ExpectMin("E13.eval-sibling-groups", nGroups, 2)
	r.Clauses = append(r.Clauses, "E13.sibling-eval-context: within the implementations of one expression-interface method, all hcl Expression.Value calls agree on nil vs non-nil evaluation context (sibling cross-check; groups of fewer than three sites are not judged)")
}

func typeIsPtrTo(t types.Type, pkgSuffix, name string) bool {
	pt, ok := t.(*types.Pointer)
	if !ok {
		return false
	}
	return typeIs(pt.Elem(), pkgSuffix, name)
}

// E17.unchecked-result — `x, err := f(…)` with f a module function: every dereferencing use
// of x (field, method, index, *x) is reached only after err == nil was established for that
// very assignment. f's result is unspecified when it reports an error (several module
// functions return a half-initialised value next to the error), so a weakened or misplaced
// check lets one failing item abort or corrupt a whole multi-item query.
var uncheckedResultExceptions = map[string]string{}

func runUncheckedResult(p *Prog, r *Report) {
	nDefs, nUses := 0, 0
	errType := types.Universe.Lookup("error").Type()
	for _, fn := range p.Funcs {
		if fn.Body == nil {
			continue
		}
		info := fn.Info()
		ast.Inspect(fn.Body, func(n ast.Node) bool {
			if lit, ok := n.(*ast.FuncLit); ok && lit != fn.Lit {
				return false
			}
			as, ok := n.(*ast.AssignStmt)
			if !ok || len(as.Rhs) != 1 || len(as.Lhs) < 2 {
				return true
			}
			call, ok := ast.Unparen(as.Rhs[0]).(*ast.CallExpr)
			if !ok {
				return true
			}
			f := calleeOf(info, call)
			if f == nil || p.FuncOf[f] == nil {
				return true
			}
			sig := f.Type().(*types.Signature)
			if sig.Results().Len() != len(as.Lhs) || !types.Identical(sig.Results().At(sig.Results().Len()-1).Type(), errType) {
				return true
			}
			eid, ok := ast.Unparen(as.Lhs[len(as.Lhs)-1]).(*ast.Ident)
			if !ok || eid.Name == "_" {
				return true
			}
			errObj := info.ObjectOf(eid)
			if errObj == nil {
				return true
			}
			isErrNil := func(a *Atom) bool {
				if a == nil || a.E == nil {
					return false
				}
				be, ok := ast.Unparen(a.E).(*ast.BinaryExpr)
				if !ok || (be.Op != token.EQL && be.Op != token.NEQ) {
					return false
				}
				var other ast.Expr
				if isNilIdent(info, be.Y) {
					other = be.X
				} else if isNilIdent(info, be.X) {
					other = be.Y
				}
				if other == nil || !isIdentObj(info, other, errObj) {
					return false
				}
				return (be.Op == token.EQL) == a.Pol
			}
			for _, l := range as.Lhs[:len(as.Lhs)-1] {
				xid, ok := ast.Unparen(l).(*ast.Ident)
				if !ok || xid.Name == "_" {
					continue
				}
				xObj := info.ObjectOf(xid)
				if xObj == nil {
					continue
				}
				switch xObj.Type().Underlying().(type) {
				case *types.Pointer, *types.Interface, *types.Map:
				default:
					continue
				}
				nDefs++
				ord := map[string]int{}
				ast.Inspect(fn.Body, func(m ast.Node) bool {
					if lit, ok := m.(*ast.FuncLit); ok && lit != fn.Lit {
						return false
					}
					var operand ast.Expr
					switch u := m.(type) {
					case *ast.SelectorExpr:
						operand = u.X
					case *ast.StarExpr:
						operand = u.X
					case *ast.IndexExpr:
						operand = u.X
					}
					if operand == nil || !isIdentObj(info, operand, xObj) || m.Pos() <= as.End() {
						return true
					}
					if !reachesWithoutRedef(fn, as, m, xObj) {
						return true
					}
					nUses++
					key := fmt.Sprintf("%s after %s", exprStr(m.(ast.Expr)), exprStr(call.Fun))
					ord[key]++
					if ord[key] > 1 {
						key += fmt.Sprintf("#%d", ord[key])
					}
					if fn.GuardsAtValid(m, isErrNil) || fn.HoldsOnAllPaths(m, isErrNil) {
						r.Add("E17.unchecked-result", fn.Name, key, p.Pos(m), OK, "reached only after "+eid.Name+" == nil was established for this call", true)
					} else if ex := uncheckedResultExceptions[fn.Name+"|"+exprStr(call.Fun)]; ex != "" {
						r.Add("E17.unchecked-result", fn.Name, key, p.Pos(m), Excepted, ex, true)
					} else {
						r.Add("E17.unchecked-result", fn.Name, key, p.Pos(m), Violated,
							fmt.Sprintf("%s is used although the error of %s(…) (assigned to %s at %s) is not known to be nil on every path here", xid.Name, exprStr(call.Fun), eid.Name, p.Pos(as)), true)
					}
					return true
				})
			}
			return true
		})
	}
	r.Counts["E17.value-error-assignments"] = nDefs
	r.Counts["E17.dereferencing-uses"] = nUses
	r.ExpectMin("E17.value-error-assignments", nDefs, 5)
	r.Clauses = append(r.Clauses, "E17.unchecked-result: for every `x, err := f(…)` on a module function with a nil-able x, each dereferencing use of x is dominated (path-sensitively, respecting re-assignments of err) by err == nil")
}

// GuardsAtValid: some dominating atom satisfying q whose variables are not re-assigned
// between the guard and the use.
func (fn *Func) GuardsAtValid(at ast.Node, q func(*Atom) bool) bool {
	return fn.GuardsAt(at).Holds(func(a *Atom) bool {
		if !q(a) {
			return false
		}
		if e, ok := a.E.(ast.Expr); ok {
			if ok2, _ := fn.guardStillValid(a, e, at); !ok2 {
				return false
			}
		}
		return true
	})
}

// E15.record-then-reject — a loop that keeps "the last element seen" in variables read after
// the loop must record an element only once the iteration can no longer reject it: after an
// assignment `last = f(element)` no conditional `break` of that loop may follow within the same
// iteration (an unconditional break right after the assignment — the accepting branch — is the
// other legitimate shape). Recording first and rejecting afterwards leaves the tracker one
// element ahead of its sibling trackers and of what the loop actually accepted.
var recordRejectExceptions = map[string]string{}

func runRecordThenReject(p *Prog, r *Report) {
	nLoops, nTrack := 0, 0
	for _, fn := range p.Funcs {
		if fn.Body == nil {
			continue
		}
		info := fn.Info()
		ast.Inspect(fn.Body, func(n ast.Node) bool {
			if lit, ok := n.(*ast.FuncLit); ok && lit != fn.Lit {
				return false
			}
			body := loopBody(n)
			if body == nil {
				return true
			}
			loop := n
			loopVars := map[types.Object]bool{}
			switch l := loop.(type) {
			case *ast.RangeStmt:
				for _, e := range []ast.Expr{l.Key, l.Value} {
					if id, ok := e.(*ast.Ident); ok && id.Name != "_" {
						if o := info.ObjectOf(id); o != nil {
							loopVars[o] = true
						}
					}
				}
			case *ast.ForStmt:
				if as, ok := l.Init.(*ast.AssignStmt); ok {
					for _, e := range as.Lhs {
						if id, ok := e.(*ast.Ident); ok {
							if o := info.ObjectOf(id); o != nil {
								loopVars[o] = true
							}
						}
					}
				}
			}
			if len(loopVars) == 0 {
				return true
			}
			nLoops++
			mentionsLoop := func(e ast.Expr) bool {
				hit := false
				ast.Inspect(e, func(z ast.Node) bool {
					if id, ok := z.(*ast.Ident); ok && loopVars[info.ObjectOf(id)] {
						hit = true
					}
					return !hit
				})
				return hit
			}
			// does stmt contain a break bound to `loop`?
			var hasBreak func(s ast.Node) *ast.BranchStmt
			hasBreak = func(s ast.Node) *ast.BranchStmt {
				var found *ast.BranchStmt
				ast.Inspect(s, func(z ast.Node) bool {
					if found != nil {
						return false
					}
					switch x := z.(type) {
					case *ast.FuncLit:
						return false
					case *ast.ForStmt, *ast.RangeStmt, *ast.SwitchStmt, *ast.TypeSwitchStmt, *ast.SelectStmt:
						if z != s {
							// unlabeled breaks inside bind to the inner statement; labeled ones are rare enough to ignore
							return false
						}
					case *ast.BranchStmt:
						if x.Tok == token.BREAK && x.Label == nil {
							found = x
						}
					}
					return true
				})
				return found
			}
			ast.Inspect(body, func(m ast.Node) bool {
				switch m.(type) {
				case *ast.FuncLit:
					return false
				case *ast.ForStmt, *ast.RangeStmt:
					return false // inner loops are judged on their own
				}
				as, ok := m.(*ast.AssignStmt)
				if !ok || as.Tok != token.ASSIGN || len(as.Lhs) != len(as.Rhs) {
					return true
				}
				for i, l := range as.Lhs {
					id, ok := ast.Unparen(l).(*ast.Ident)
					if !ok {
						continue
					}
					o, ok := info.ObjectOf(id).(*types.Var)
					if !ok || o.Pos() >= loop.Pos() || o.Pos() < fn.Body.Pos() && !isParamOf(fn, o) {
						continue
					}
					if !mentionsLoop(as.Rhs[i]) {
						continue
					}
					// accumulators (xs = append(xs, …), n = n + …) are not "last seen" trackers
					selfRef := false
					ast.Inspect(as.Rhs[i], func(z ast.Node) bool {
						if uid, ok := z.(*ast.Ident); ok && info.Uses[uid] == o {
							selfRef = true
						}
						return !selfRef
					})
					if selfRef {
						continue
					}
					// read after the loop
					readAfter := false
					ast.Inspect(fn.Body, func(z ast.Node) bool {
						if uid, ok := z.(*ast.Ident); ok && uid.Pos() > loop.End() && info.Uses[uid] == o {
							readAfter = true
						}
						return !readAfter
					})
					if !readAfter {
						continue
					}
					nTrack++
					// statements that may follow the assignment within the iteration
					var bad *ast.BranchStmt
					cur := ast.Node(as)
				up:
					for cur != nil && cur != ast.Node(body) && bad == nil {
						par := p.Parent(cur)
						var list []ast.Stmt
						switch b := par.(type) {
						case *ast.BlockStmt:
							list = b.List
						case *ast.CaseClause:
							list = b.Body
						}
						after := false
						for _, s := range list {
							if ast.Node(s) == cur {
								after = true
								continue
							}
							if !after {
								continue
							}
							if br, ok := s.(*ast.BranchStmt); ok {
								_ = br
								break up // unconditional break / continue / goto: the iteration ends here
							}
							if _, ok := s.(*ast.ReturnStmt); ok {
								break up
							}
							if br := hasBreak(s); br != nil {
								bad = br
								break
							}
						}
						if par == ast.Node(body) {
							break
						}
						cur = par
						// climb through if/else/switch wrappers to the statement in the next list
						for cur != nil && cur != ast.Node(body) {
							if _, isStmtInList := p.Parent(cur).(*ast.BlockStmt); isStmtInList {
								break
							}
							if _, isCase := p.Parent(cur).(*ast.CaseClause); isCase {
								break
							}
							cur = p.Parent(cur)
						}
					}
					key := fmt.Sprintf("%s = %s in %s", id.Name, cmpText(as.Rhs[i]), relLoopName(loop))
					switch {
					case bad == nil:
						r.Add("E15.record-then-reject", fn.Name, key, p.Pos(as), OK, "no conditional break of the loop can follow this assignment within the iteration", true)
					case recordRejectExceptions[fn.Name+"|"+id.Name] != "":
						r.Add("E15.record-then-reject", fn.Name, key, p.Pos(as), Excepted, recordRejectExceptions[fn.Name+"|"+id.Name], true)
					default:
						r.Add("E15.record-then-reject", fn.Name, key, p.Pos(as), Violated,
							fmt.Sprintf("%s (read after the loop) records the current element, but the iteration can still leave the loop through the conditional break at %s: the element is recorded and then rejected", id.Name, p.Pos(bad)), true)
					}
				}
				return true
			})
			return true
		})
	}
	r.Counts["E15.loops-with-element-variables"] = nLoops
	r.Counts["E15.loop-carried-trackers"] = nTrack
	r.ExpectMin("E15.loop-carried-trackers", nTrack, 5)
	r.Clauses = append(r.Clauses, "E15.record-then-reject: a variable read after a loop that records the current element is assigned only where no conditional break of that loop can follow in the same iteration")
}

func relLoopName(loop ast.Node) string {
	switch l := loop.(type) {
	case *ast.RangeStmt:
		return "range " + cmpText(l.X)
	case *ast.ForStmt:
		if l.Cond != nil {
			return "for " + cmpText(l.Cond)
		}
	}
	return "for"
}

// E16.premature-use — the "default, then override" idiom: `x := a; if c { x = b }; use(x)`.
// When a local has exactly one initial definition and one conditional re-definition in a later
// sibling `if` of the same block, and is read after that `if`, a read placed between the
// default and the override sees the default even when the override applies — the statement
// was written (or moved) too early.
var prematureUseExceptions = map[string]string{}

func runPrematureUse(p *Prog, r *Report) {
	nIdiom := 0
	for _, fn := range p.Funcs {
		if fn.Body == nil {
			continue
		}
		info := fn.Info()
		ast.Inspect(fn.Body, func(n ast.Node) bool {
			if lit, ok := n.(*ast.FuncLit); ok && lit != fn.Lit {
				return false
			}
			blk, ok := n.(*ast.BlockStmt)
			if !ok {
				return true
			}
			for i, st := range blk.List {
				as, ok := st.(*ast.AssignStmt)
				if !ok || as.Tok != token.DEFINE {
					continue
				}
				for _, l := range as.Lhs {
					id, ok := l.(*ast.Ident)
					if !ok || id.Name == "_" {
						continue
					}
					o := info.Defs[id]
					if o == nil {
						continue
					}
					defs := fn.Assignments(o)
					if len(defs) != 2 {
						continue
					}
					var other ast.Node
					for _, d := range defs {
						if d != ast.Node(as) {
							other = d
						}
					}
					oas, ok := other.(*ast.AssignStmt)
					if !ok || oas.Tok != token.ASSIGN {
						continue
					}
					// the override sits directly in the body of a later sibling if (no else)
					overrideIdx := -1
					for j := i + 1; j < len(blk.List); j++ {
						ifs, ok := blk.List[j].(*ast.IfStmt)
						if !ok || ifs.Else != nil {
							continue
						}
						for _, s := range ifs.Body.List {
							if s == ast.Stmt(oas) {
								overrideIdx = j
							}
						}
					}
					if overrideIdx < 0 {
						continue
					}
					// read after the override?
					readAfter := false
					for j := overrideIdx + 1; j < len(blk.List); j++ {
						ast.Inspect(blk.List[j], func(z ast.Node) bool {
							if u, ok := z.(*ast.Ident); ok && info.Uses[u] == o {
								readAfter = true
							}
							return !readAfter
						})
					}
					if !readAfter {
						continue
					}
					nIdiom++
					var early ast.Node
					for j := i + 1; j < overrideIdx; j++ {
						ast.Inspect(blk.List[j], func(z ast.Node) bool {
							if u, ok := z.(*ast.Ident); ok && info.Uses[u] == o && early == nil {
								// only reads whose path goes on to the override (a read in a
								// branch that returns first legitimately uses the default)
								if reachesStmt(fn, u, oas, nil) {
									early = u
								}
							}
							return early == nil
						})
					}
					// the override's own condition may read the default
					key := id.Name + " overridden under " + cmpText(blk.List[overrideIdx].(*ast.IfStmt).Cond)
					switch {
					case early == nil:
						r.Add("E16.premature-use", fn.Name, key, p.Pos(as), OK, "no read between the default and its conditional override", true)
					case prematureUseExceptions[fn.Name+"|"+id.Name] != "":
						r.Add("E16.premature-use", fn.Name, key, p.Pos(early), Excepted, prematureUseExceptions[fn.Name+"|"+id.Name], true)
					default:
						r.Add("E16.premature-use", fn.Name, key, p.Pos(early), Violated,
							fmt.Sprintf("%s is read at %s, between its default (%s) and the conditional override at %s, although it is also read after the override: this read never sees the overriding value", id.Name, p.Pos(early), p.Pos(as), p.Pos(oas)), true)
					}
				}
			}
			return true
		})
	}
	r.Counts["E16.default-then-override-idioms"] = nIdiom
	r.ExpectMin("E16.default-then-override-idioms", nIdiom, 3)
	r.Clauses = append(r.Clauses, "E16.premature-use: a local with a default and one conditional override in a later sibling if is not read between the two when it is read after the override")
}
