package main

// E13.sibling-eval-context — cross-check of sibling implementations (Engler et al.): the
// implementations of one expression-interface method (ReferenceTargets, HoverAtPos,
// SemanticTokens, …) evaluate hcl expressions for the same purpose and must agree on whether
// they pass an evaluation context. For HCL-JSON expressions the two differ observably:
// Value(nil) returns JSON strings verbatim (no template parsing), Value(&hcl.EvalContext{})
// parses "${…}" templates like native syntax — so one deviating sibling makes JSON and native
// files disagree for that query.

import (
	"fmt"
	"go/ast"
	"go/parser"
	"go/token"
	"go/types"
	"sort"
	"strings"
)

func runEvalContextAgreement(p *Prog, r *Report) {
	type site struct {
		fn    *Func
		call  *ast.CallExpr
		isNil bool
	}
	groups := map[string][]site{}
	nSites := 0
	for _, fn := range p.Funcs {
		if fn.Body == nil || !strings.Contains(fn.Pkg.PkgPath, "hcl-lang/decoder") {
			continue
		}
		root := rootOf(fn)
		if root.Obj == nil {
			continue
		}
		sig, ok := root.Obj.Type().(*types.Signature)
		if !ok || sig.Recv() == nil || !implementsModuleInterface(p, root.Obj) {
			continue
		}
		info := fn.Info()
		ast.Inspect(fn.Body, func(n ast.Node) bool {
			if lit, ok := n.(*ast.FuncLit); ok && lit != fn.Lit {
				return false
			}
			call, ok := n.(*ast.CallExpr)
			if !ok || len(call.Args) != 1 {
				return true
			}
			f := calleeOf(info, call)
			if f == nil || fname(f) != "Value" {
				return true
			}
			fs, ok := f.Type().(*types.Signature)
			if !ok || fs.Params().Len() != 1 || !typeIsPtrTo(fs.Params().At(0).Type(), "hcl/v2", "EvalContext") {
				return true
			}
			nSites++
			groups[root.Obj.Name()] = append(groups[root.Obj.Name()], site{fn, call, isNilIdent(info, call.Args[0])})
			return true
		})
	}
	var names []string
	for k := range groups {
		names = append(names, k)
	}
	sort.Strings(names)
	nGroups := 0
	for _, k := range names {
		ss := groups[k]
		nNil := 0
		for _, s := range ss {
			if s.isNil {
				nNil++
			}
		}
		if len(ss) < 3 {
			continue // too few siblings to cross-check
		}
		nGroups++
		majorityNil := nNil*2 > len(ss)
		ord := map[string]int{}
		for _, s := range ss {
			key := fmt.Sprintf("%s %s", k, exprStr(s.call))
			ord[s.fn.Name+key]++
			if ord[s.fn.Name+key] > 1 {
				key += fmt.Sprintf("#%d", ord[s.fn.Name+key])
			}
			switch {
			case nNil == 0 || nNil == len(ss) || s.isNil == majorityNil && nNil*2 != len(ss):
				r.Add("E13.sibling-eval-context", s.fn.Name, key, p.Pos(s.call), OK,
					fmt.Sprintf("agrees with the %d evaluation sites in implementations of %s", len(ss), k), true)
			default:
				how := "an (empty) evaluation context"
				if majorityNil {
					how = "nil"
				}
				r.Add("E13.sibling-eval-context", s.fn.Name, key, p.Pos(s.call), Violated,
					fmt.Sprintf("the other implementations of %s evaluate expressions with %s (%d of %d sites); this one deviates, so HCL-JSON strings are template-parsed differently here than in its siblings", k, how, len(ss)-min(nNil, len(ss)-nNil), len(ss)), true)
			}
		}
	}
	r.Counts["E13.eval-sites-in-interface-methods"] = nSites
	r.Counts["E13.eval-sibling-groups"] = nGroups
	r.ExpectMin("E13.eval-sibling-groups", nGroups, 2)
	r.Clauses = append(r.Clauses, "E13.sibling-eval-context: within the implementations of one expression-interface method, all hcl Expression.Value calls agree on nil vs non-nil evaluation context (sibling cross-check; groups of fewer than three sites are not judged)")
}

func typeIsPtrTo(t types.Type, pkgSuffix, name string) bool {
	pt, ok := t.(*types.Pointer)
	if !ok {
		return false
	}
	return typeIs(pt.Elem(), pkgSuffix, name)
}

// E17.unchecked-result — `x, err := f(…)` with f a module function: every dereferencing use
// of x (field, method, index, *x) is reached only after err == nil was established for that
// very assignment. f's result is unspecified when it reports an error (several module
// functions return a half-initialised value next to the error), so a weakened or misplaced
// check lets one failing item abort or corrupt a whole multi-item query.
var uncheckedResultExceptions = map[string]string{}

func runUncheckedResult(p *Prog, r *Report) {
	nDefs, nUses := 0, 0
	errType := types.Universe.Lookup("error").Type()
	for _, fn := range p.Funcs {
		if fn.Body == nil {
			continue
		}
		info := fn.Info()
		ast.Inspect(fn.Body, func(n ast.Node) bool {
			if lit, ok := n.(*ast.FuncLit); ok && lit != fn.Lit {
				return false
			}
			as, ok := n.(*ast.AssignStmt)
			if !ok || len(as.Rhs) != 1 || len(as.Lhs) < 2 {
				return true
			}
			call, ok := ast.Unparen(as.Rhs[0]).(*ast.CallExpr)
			if !ok {
				return true
			}
			f := calleeOf(info, call)
			if f == nil || p.FuncOf[f] == nil {
				return true
			}
			sig := f.Type().(*types.Signature)
			if sig.Results().Len() != len(as.Lhs) || !types.Identical(sig.Results().At(sig.Results().Len()-1).Type(), errType) {
				return true
			}
			eid, ok := ast.Unparen(as.Lhs[len(as.Lhs)-1]).(*ast.Ident)
			if !ok || eid.Name == "_" {
				return true
			}
			errObj := info.ObjectOf(eid)
			if errObj == nil {
				return true
			}
			isErrNil := func(a *Atom) bool {
				if a == nil || a.E == nil {
					return false
				}
				be, ok := ast.Unparen(a.E).(*ast.BinaryExpr)
				if !ok || (be.Op != token.EQL && be.Op != token.NEQ) {
					return false
				}
				var other ast.Expr
				if isNilIdent(info, be.Y) {
					other = be.X
				} else if isNilIdent(info, be.X) {
					other = be.Y
				}
				if other == nil || !isIdentObj(info, other, errObj) {
					return false
				}
				return (be.Op == token.EQL) == a.Pol
			}
			for _, l := range as.Lhs[:len(as.Lhs)-1] {
				xid, ok := ast.Unparen(l).(*ast.Ident)
				if !ok || xid.Name == "_" {
					continue
				}
				xObj := info.ObjectOf(xid)
				if xObj == nil {
					continue
				}
				switch xObj.Type().Underlying().(type) {
				case *types.Pointer, *types.Interface, *types.Map:
				default:
					continue
				}
				nDefs++
				ord := map[string]int{}
				ast.Inspect(fn.Body, func(m ast.Node) bool {
					if lit, ok := m.(*ast.FuncLit); ok && lit != fn.Lit {
						return false
					}
					var operand ast.Expr
					switch u := m.(type) {
					case *ast.SelectorExpr:
						operand = u.X
					case *ast.StarExpr:
						operand = u.X
					case *ast.IndexExpr:
						operand = u.X
					}
					if operand == nil || !isIdentObj(info, operand, xObj) || m.Pos() <= as.End() {
						return true
					}
					if !reachesWithoutRedef(fn, as, m, xObj) {
						return true
					}
					nUses++
					key := fmt.Sprintf("%s after %s", exprStr(m.(ast.Expr)), exprStr(call.Fun))
					ord[key]++
					if ord[key] > 1 {
						key += fmt.Sprintf("#%d", ord[key])
					}
					if fn.GuardsAtValid(m, isErrNil) || fn.HoldsOnAllPaths(m, isErrNil) {
						r.Add("E17.unchecked-result", fn.Name, key, p.Pos(m), OK, "reached only after "+eid.Name+" == nil was established for this call", true)
					} else if ex := uncheckedResultExceptions[fn.Name+"|"+exprStr(call.Fun)]; ex != "" {
						r.Add("E17.unchecked-result", fn.Name, key, p.Pos(m), Excepted, ex, true)
					} else {
						r.Add("E17.unchecked-result", fn.Name, key, p.Pos(m), Violated,
							fmt.Sprintf("%s is used although the error of %s(…) (assigned to %s at %s) is not known to be nil on every path here", xid.Name, exprStr(call.Fun), eid.Name, p.Pos(as)), true)
					}
					return true
				})
			}
			return true
		})
	}
	r.Counts["E17.value-error-assignments"] = nDefs
	r.Counts["E17.dereferencing-uses"] = nUses
	r.ExpectMin("E17.value-error-assignments", nDefs, 5)
	r.Clauses = append(r.Clauses, "E17.unchecked-result: for every `x, err := f(…)` on a module function with a nil-able x, each dereferencing use of x is dominated (path-sensitively, respecting re-assignments of err) by err == nil")
}

// GuardsAtValid: some dominating atom satisfying q whose variables are not re-assigned
// between the guard and the use.
func (fn *Func) GuardsAtValid(at ast.Node, q func(*Atom) bool) bool {
	return fn.GuardsAt(at).Holds(func(a *Atom) bool {
		if !q(a) {
			return false
		}
		if e, ok := a.E.(ast.Expr); ok {
			if ok2, _ := fn.guardStillValid(a, e, at); !ok2 {
				return false
			}
		}
		return true
	})
}

// E15.record-then-reject — a loop that keeps "the last element seen" in variables read after
// the loop must record an element only once the iteration can no longer reject it: after an
// assignment `last = f(element)` no conditional `break` of that loop may follow within the same
// iteration (an unconditional break right after the assignment — the accepting branch — is the
// other legitimate shape). Recording first and rejecting afterwards leaves the tracker one
// element ahead of its sibling trackers and of what the loop actually accepted.
var recordRejectExceptions = map[string]string{}

func runRecordThenReject(p *Prog, r *Report) {
	nLoops, nTrack := 0, 0
	for _, fn := range p.Funcs {
		if fn.Body == nil {
			continue
		}
		info := fn.Info()
		ast.Inspect(fn.Body, func(n ast.Node) bool {
			if lit, ok := n.(*ast.FuncLit); ok && lit != fn.Lit {
				return false
			}
			body := loopBody(n)
			if body == nil {
				return true
			}
			loop := n
			loopVars := map[types.Object]bool{}
			switch l := loop.(type) {
			case *ast.RangeStmt:
				for _, e := range []ast.Expr{l.Key, l.Value} {
					if id, ok := e.(*ast.Ident); ok && id.Name != "_" {
						if o := info.ObjectOf(id); o != nil {
							loopVars[o] = true
						}
					}
				}
			case *ast.ForStmt:
				if as, ok := l.Init.(*ast.AssignStmt); ok {
					for _, e := range as.Lhs {
						if id, ok := e.(*ast.Ident); ok {
							if o := info.ObjectOf(id); o != nil {
								loopVars[o] = true
							}
						}
					}
				}
			}
			if len(loopVars) == 0 {
				return true
			}
			nLoops++
			mentionsLoop := func(e ast.Expr) bool {
				hit := false
				ast.Inspect(e, func(z ast.Node) bool {
					if id, ok := z.(*ast.Ident); ok && loopVars[info.ObjectOf(id)] {
						hit = true
					}
					return !hit
				})
				return hit
			}
			// does stmt contain a break bound to `loop`?
			var hasBreak func(s ast.Node) *ast.BranchStmt
			hasBreak = func(s ast.Node) *ast.BranchStmt {
				var found *ast.BranchStmt
				ast.Inspect(s, func(z ast.Node) bool {
					if found != nil {
						return false
					}
					switch x := z.(type) {
					case *ast.FuncLit:
						return false
					case *ast.ForStmt, *ast.RangeStmt, *ast.SwitchStmt, *ast.TypeSwitchStmt, *ast.SelectStmt:
						if z != s {
							// unlabeled breaks inside bind to the inner statement; labeled ones are rare enough to ignore
							return false
						}
					case *ast.BranchStmt:
						if x.Tok == token.BREAK && x.Label == nil {
							found = x
						}
					}
					return true
				})
				return found
			}
			ast.Inspect(body, func(m ast.Node) bool {
				switch m.(type) {
				case *ast.FuncLit:
					return false
				case *ast.ForStmt, *ast.RangeStmt:
					return false // inner loops are judged on their own
				}
				as, ok := m.(*ast.AssignStmt)
				if !ok || as.Tok != token.ASSIGN || len(as.Lhs) != len(as.Rhs) {
					return true
				}
				for i, l := range as.Lhs {
					id, ok := ast.Unparen(l).(*ast.Ident)
					if !ok {
						continue
					}
					o, ok := info.ObjectOf(id).(*types.Var)
					if !ok || o.Pos() >= loop.Pos() || o.Pos() < fn.Body.Pos() && !isParamOf(fn, o) {
						continue
					}
					if !mentionsLoop(as.Rhs[i]) {
						continue
					}
					// accumulators (xs = append(xs, …), n = n + …) are not "last seen" trackers
					selfRef := false
					ast.Inspect(as.Rhs[i], func(z ast.Node) bool {
						if uid, ok := z.(*ast.Ident); ok && info.Uses[uid] == o {
							selfRef = true
						}
						return !selfRef
					})
					if selfRef {
						continue
					}
					// read after the loop
					readAfter := false
					ast.Inspect(fn.Body, func(z ast.Node) bool {
						if uid, ok := z.(*ast.Ident); ok && uid.Pos() > loop.End() && info.Uses[uid] == o {
							readAfter = true
						}
						return !readAfter
					})
					if !readAfter {
						continue
					}
					nTrack++
					// statements that may follow the assignment within the iteration
					var bad *ast.BranchStmt
					cur := ast.Node(as)
				up:
					for cur != nil && cur != ast.Node(body) && bad == nil {
						par := p.Parent(cur)
						var list []ast.Stmt
						switch b := par.(type) {
						case *ast.BlockStmt:
							list = b.List
						case *ast.CaseClause:
							list = b.Body
						}
						after := false
						for _, s := range list {
							if ast.Node(s) == cur {
								after = true
								continue
							}
							if !after {
								continue
							}
							if br, ok := s.(*ast.BranchStmt); ok {
								_ = br
								break up // unconditional break / continue / goto: the iteration ends here
							}
							if _, ok := s.(*ast.ReturnStmt); ok {
								break up
							}
							if br := hasBreak(s); br != nil {
								bad = br
								break
							}
						}
						if par == ast.Node(body) {
							break
						}
						cur = par
						// climb through if/else/switch wrappers to the statement in the next list
						for cur != nil && cur != ast.Node(body) {
							if _, isStmtInList := p.Parent(cur).(*ast.BlockStmt); isStmtInList {
								break
							}
							if _, isCase := p.Parent(cur).(*ast.CaseClause); isCase {
								break
							}
							cur = p.Parent(cur)
						}
					}
					key := fmt.Sprintf("%s = %s in %s", id.Name, cmpText(as.Rhs[i]), relLoopName(loop))
					switch {
					case bad == nil:
						r.Add("E15.record-then-reject", fn.Name, key, p.Pos(as), OK, "no conditional break of the loop can follow this assignment within the iteration", true)
					case recordRejectExceptions[fn.Name+"|"+id.Name] != "":
						r.Add("E15.record-then-reject", fn.Name, key, p.Pos(as), Excepted, recordRejectExceptions[fn.Name+"|"+id.Name], true)
					default:
						r.Add("E15.record-then-reject", fn.Name, key, p.Pos(as), Violated,
							fmt.Sprintf("%s (read after the loop) records the current element, but the iteration can still leave the loop through the conditional break at %s: the element is recorded and then rejected", id.Name, p.Pos(bad)), true)
					}
				}
				return true
			})
			return true
		})
	}
	r.Counts["E15.loops-with-element-variables"] = nLoops
	r.Counts["E15.loop-carried-trackers"] = nTrack
	r.ExpectMin("E15.loop-carried-trackers", nTrack, 5)
	r.Clauses = append(r.Clauses, "E15.record-then-reject: a variable read after a loop that records the current element is assigned only where no conditional break of that loop can follow in the same iteration")
}

func relLoopName(loop ast.Node) string {
	switch l := loop.(type) {
	case *ast.RangeStmt:
		return "range " + cmpText(l.X)
	case *ast.ForStmt:
		if l.Cond != nil {
			return "for " + cmpText(l.Cond)
		}
	}
	return "for"
}

// E16.premature-use — the "default, then override" idiom: `x := a; if c { x = b }; use(x)`.
// When a local has exactly one initial definition and one conditional re-definition in a later
// sibling `if` of the same block, and is read after that `if`, a read placed between the
// default and the override sees the default even when the override applies — the statement
// was written (or moved) too early.
var prematureUseExceptions = map[string]string{}

func runPrematureUse(p *Prog, r *Report) {
	nIdiom := 0
	for _, fn := range p.Funcs {
		if fn.Body == nil {
			continue
		}
		info := fn.Info()
		ast.Inspect(fn.Body, func(n ast.Node) bool {
			if lit, ok := n.(*ast.FuncLit); ok && lit != fn.Lit {
				return false
			}
			blk, ok := n.(*ast.BlockStmt)
			if !ok {
				return true
			}
			for i, st := range blk.List {
				as, ok := st.(*ast.AssignStmt)
				if !ok || as.Tok != token.DEFINE {
					continue
				}
				for _, l := range as.Lhs {
					id, ok := l.(*ast.Ident)
					if !ok || id.Name == "_" {
						continue
					}
					o := info.Defs[id]
					if o == nil {
						continue
					}
					defs := fn.Assignments(o)
					if len(defs) != 2 {
						continue
					}
					var other ast.Node
					for _, d := range defs {
						if d != ast.Node(as) {
							other = d
						}
					}
					oas, ok := other.(*ast.AssignStmt)
					if !ok || oas.Tok != token.ASSIGN {
						continue
					}
					// the override sits directly in the body of a later sibling if (no else)
					overrideIdx := -1
					for j := i + 1; j < len(blk.List); j++ {
						ifs, ok := blk.List[j].(*ast.IfStmt)
						if !ok || ifs.Else != nil {
							continue
						}
						for _, s := range ifs.Body.List {
							if s == ast.Stmt(oas) {
								overrideIdx = j
							}
						}
					}
					if overrideIdx < 0 {
						continue
					}
					// read after the override?
					readAfter := false
					for j := overrideIdx + 1; j < len(blk.List); j++ {
						ast.Inspect(blk.List[j], func(z ast.Node) bool {
							// (only reads the overriding value can flow to: an override in a branch
							// that returns is local to that branch)
							if u, ok := z.(*ast.Ident); ok && info.Uses[u] == o && reachesStmt(fn, oas, u, nil) {
								readAfter = true
							}
							return !readAfter
						})
					}
					if !readAfter {
						continue
					}
					nIdiom++
					var early ast.Node
					for j := i + 1; j < overrideIdx; j++ {
						ast.Inspect(blk.List[j], func(z ast.Node) bool {
							if u, ok := z.(*ast.Ident); ok && info.Uses[u] == o && early == nil {
								// only reads whose path goes on to the override (a read in a
								// branch that returns first legitimately uses the default)
								if reachesStmt(fn, u, oas, nil) {
									early = u
								}
							}
							return early == nil
						})
					}
					// the override's own condition may read the default
					key := id.Name + " overridden under " + cmpText(blk.List[overrideIdx].(*ast.IfStmt).Cond)
					switch {
					case early == nil:
						r.Add("E16.premature-use", fn.Name, key, p.Pos(as), OK, "no read between the default and its conditional override", true)
					case prematureUseExceptions[fn.Name+"|"+id.Name] != "":
						r.Add("E16.premature-use", fn.Name, key, p.Pos(early), Excepted, prematureUseExceptions[fn.Name+"|"+id.Name], true)
					default:
						r.Add("E16.premature-use", fn.Name, key, p.Pos(early), Violated,
							fmt.Sprintf("%s is read at %s, between its default (%s) and the conditional override at %s, although it is also read after the override: this read never sees the overriding value", id.Name, p.Pos(early), p.Pos(as), p.Pos(oas)), true)
					}
				}
			}
			return true
		})
	}
	r.Counts["E16.default-then-override-idioms"] = nIdiom
	r.ExpectMin("E16.default-then-override-idioms", nIdiom, 3)
	r.Clauses = append(r.Clauses, "E16.premature-use: a local with a default and one conditional override in a later sibling if is not read between the two when it is read after the override")
}

// E15.conversion-direction — cty conversion checks ask "can a value of the produced type be
// used where the constraint's type is expected": the constraint's type (anything read from the
// receiver's `cons` field) is the *target* of convert.Convert / convert.GetConversion, never
// the source. The two directions agree for equal and dynamic types and differ exactly for the
// asymmetric conversions (number→string, bool→string, tuple→list …).
func runConversionDirection(p *Prog, r *Report) {
	n := 0
	callers := buildCallersCached(p)
	// is e (in fn) read from the receiver's constraint? follows single-definition locals and,
	// for parameters of unexported functions, every call site's argument.
	var fromCons func(fn *Func, e ast.Expr, depth int) bool
	fromCons = func(fn *Func, e ast.Expr, depth int) bool {
		if depth > 3 {
			return false
		}
		info := fn.Info()
		e = ast.Unparen(e)
		hit := false
		ast.Inspect(e, func(z ast.Node) bool {
			if hit {
				return false
			}
			if sel, ok := z.(*ast.SelectorExpr); ok && canonId(sel.Sel.Name) == "cons" {
				hit = true
				return false
			}
			if id, ok := z.(*ast.Ident); ok {
				v, isVar := info.ObjectOf(id).(*types.Var)
				if !isVar || v.IsField() {
					return true
				}
				if def := fn.SingleDef(v); def != nil {
					if fromCons(fn, def, depth+1) {
						hit = true
					}
					return true
				}
				root := rootOf(fn)
				if root.Obj != nil && root.isParam(v) && !root.Obj.Exported() {
					sig := root.Obj.Type().(*types.Signature)
					idx := -1
					for i := 0; i < sig.Params().Len(); i++ {
						if sig.Params().At(i) == v {
							idx = i
						}
					}
					sites := callers[root.Obj]
					if idx >= 0 && len(sites) > 0 {
						all := true
						for _, cs := range sites {
							if idx >= len(cs.call.Args) || !fromCons(cs.fn, cs.call.Args[idx], depth+1) {
								all = false
							}
						}
						if all {
							hit = true
						}
					}
				}
			}
			return true
		})
		return hit
	}
	for _, fn := range p.Funcs {
		if fn.Body == nil {
			continue
		}
		info := fn.Info()
		ast.Inspect(fn.Body, func(z ast.Node) bool {
			if lit, ok := z.(*ast.FuncLit); ok && lit != fn.Lit {
				return false
			}
			call, ok := z.(*ast.CallExpr)
			if !ok {
				return true
			}
			full := calleeFull(info, call)
			var src, dst ast.Expr
			switch full {
			case "github.com/zclconf/go-cty/cty/convert.Convert":
				if len(call.Args) == 2 {
					src, dst = call.Args[0], call.Args[1]
				}
			case "github.com/zclconf/go-cty/cty/convert.GetConversion", "github.com/zclconf/go-cty/cty/convert.GetConversionUnsafe":
				if len(call.Args) == 2 {
					src, dst = call.Args[0], call.Args[1]
				}
			}
			if src == nil {
				return true
			}
			n++
			key := "call " + full[strings.LastIndex(full, "/")+1:] + "(" + short(exprStr(src), 30) + ", " + short(exprStr(dst), 30) + ")"
			if fromCons(fn, src, 0) && !fromCons(fn, dst, 0) {
				r.Add("E15.conversion-direction", fn.Name, key, p.Pos(call), Violated,
					"the conversion's source is read from the constraint ("+exprStr(src)+") and its target is not: the check asks whether the expected type converts to the produced one, which differs from the intended direction for number→string, bool→string and similar one-way conversions", true)
			} else {
				r.Add("E15.conversion-direction", fn.Name, key, p.Pos(call), OK, "the constraint's type is not the source of the conversion", true)
			}
			return true
		})
	}
	r.Counts["E15.conversion-checks"] = n
	r.ExpectMin("E15.conversion-checks", n, 3)
	r.Clauses = append(r.Clauses, "E15.conversion-direction: a type read from the receiver's constraint is never the source of a cty conversion check")
}

// E15.resumed-search — an inner search loop that starts where the previous outer iteration's
// match was found (`for i := next; …; i++ { … next = i + 1 … }`) never compares the elements
// before that point again; it is only right for two sequences known to be ordered alike, which
// nothing in the code establishes.
func runResumedSearch(p *Prog, r *Report) {
	nLoops := 0
	for _, fn := range p.Funcs {
		if fn.Body == nil || fn.Lit != nil {
			continue
		}
		loops, hits := resumedSearchIn(fn.Info(), fn.Body)
		nLoops += loops
		for _, h := range hits {
			r.Add("E15.resumed-search", fn.Name, "for "+h.idx+" := "+h.start, p.Pos(h.loop), Violated,
				"the inner loop starts at "+h.start+", which it advances itself and which is kept across iterations of the enclosing loop: elements before the previous match are never examined again", true)
		}
	}
	// the rule expects no instance on the reviewed tree: a built-in positive example keeps it
	// from passing vacuously
	const sample = `package p
func f(xs, ys []int) int {
	next, n := 0, 0
	for _, y := range ys {
		for i := next; i < len(xs); i++ {
			if xs[i] == y {
				next = i + 1
				n++
				break
			}
		}
	}
	return n
}`
	fset := token.NewFileSet()
	selfOK := false
	if f, err := parser.ParseFile(fset, "sample.go", sample, 0); err == nil {
		info := &types.Info{Defs: map[*ast.Ident]types.Object{}, Uses: map[*ast.Ident]types.Object{}, Types: map[ast.Expr]types.TypeAndValue{}}
		if _, err := (&types.Config{}).Check("p", fset, []*ast.File{f}, info); err == nil {
			for _, d := range f.Decls {
				if fd, ok := d.(*ast.FuncDecl); ok {
					if _, hits := resumedSearchIn(info, fd.Body); len(hits) == 1 {
						selfOK = true
					}
				}
			}
		}
	}
	if selfOK {
		r.Add("E15.resumed-search", "self-test", "built-in positive example", "-", OK, "the rule reports the built-in resumed-search example", false)
	} else {
		r.Add("E15.resumed-search", "self-test", "built-in positive example", "-", Undecided, "the rule no longer reports its built-in positive example", false)
	}
	r.Counts["E15.loops-examined-for-resumed-search"] = nLoops
	r.ExpectMin("E15.loops-examined-for-resumed-search", nLoops, 100)
	r.Clauses = append(r.Clauses, "E15.resumed-search: no inner search loop starts at an index it advances itself across iterations of an enclosing loop")
}

type resumedHit struct {
	loop       *ast.ForStmt
	idx, start string
}

// resumedSearchIn: loops examined and the resumed-search loops among them.
func resumedSearchIn(info *types.Info, body *ast.BlockStmt) (int, []resumedHit) {
	n := 0
	var hits []resumedHit
	var stack []ast.Node
	ast.Inspect(body, func(z ast.Node) bool {
		if z == nil {
			stack = stack[:len(stack)-1]
			return true
		}
		stack = append(stack, z)
		switch z.(type) {
		case *ast.ForStmt, *ast.RangeStmt:
			n++
		}
		fs, ok := z.(*ast.ForStmt)
		if !ok {
			return true
		}
		init, ok := fs.Init.(*ast.AssignStmt)
		if !ok || len(init.Lhs) != 1 || len(init.Rhs) != 1 {
			return true
		}
		sid, ok := ast.Unparen(init.Rhs[0]).(*ast.Ident)
		if !ok {
			return true
		}
		sv, ok := info.ObjectOf(sid).(*types.Var)
		if !ok || sv.IsField() {
			return true
		}
		assignedInside := false
		ast.Inspect(fs.Body, func(m ast.Node) bool {
			switch a := m.(type) {
			case *ast.AssignStmt:
				for _, l := range a.Lhs {
					if id, ok := ast.Unparen(l).(*ast.Ident); ok && info.ObjectOf(id) == sv {
						assignedInside = true
					}
				}
			case *ast.IncDecStmt:
				if id, ok := ast.Unparen(a.X).(*ast.Ident); ok && info.ObjectOf(id) == sv {
					assignedInside = true
				}
			}
			return true
		})
		nested := false
		for _, c := range stack[:len(stack)-1] {
			switch c.(type) {
			case *ast.ForStmt, *ast.RangeStmt:
				if sv.Pos() < c.Pos() {
					nested = true
				}
			}
		}
		if assignedInside && nested {
			hits = append(hits, resumedHit{fs, types.ExprString(init.Lhs[0]), sid.Name})
		}
		return true
	})
	return n, hits
}

// E8.own-expression — the position induction of hover/completion/tokens rests on "the
// receiver's expr is the expression this value was constructed for (and that contains the
// cursor)". No method of an expression type may therefore re-point its own `expr` (or `cons`).
func runOwnExprImmutable(p *Prog, r *Report) {
	n := 0
	for _, fn := range p.Funcs {
		if fn.Body == nil || !strings.HasSuffix(fn.Pkg.PkgPath, "hcl-lang/decoder") {
			continue
		}
		root := rootOf(fn)
		rv := recvObj(root)
		if rv == nil {
			continue
		}
		st, ok := derefType(rv.Type()).Underlying().(*types.Struct)
		if !ok {
			continue
		}
		hasExpr := false
		for i := 0; i < st.NumFields(); i++ {
			if canonId(st.Field(i).Name()) == "expr" {
				hasExpr = true
			}
		}
		if !hasExpr {
			continue
		}
		if fn.Lit == nil {
			n++
		}
		info := fn.Info()
		ast.Inspect(fn.Body, func(z ast.Node) bool {
			if lit, ok := z.(*ast.FuncLit); ok && lit != fn.Lit {
				return false
			}
			as, ok := z.(*ast.AssignStmt)
			if !ok {
				return true
			}
			for _, l := range as.Lhs {
				sel, ok := ast.Unparen(l).(*ast.SelectorExpr)
				if !ok || !isIdentObj(info, sel.X, rv) {
					continue
				}
				if nm := canonId(sel.Sel.Name); nm == "expr" || nm == "cons" {
					r.Add("E8.own-expression", root.Name, exprStr(l)+" reassigned", p.Pos(as), Violated,
						"the method replaces its receiver's "+nm+": everything below reasons about (and reports the range of) an expression other than the one this value was built for, without a positional test of the cursor against it", true)
				}
			}
			return true
		})
	}
	r.Counts["E8.expression-methods"] = n
	r.ExpectMin("E8.expression-methods", n, 50)
	r.Clauses = append(r.Clauses, "E8.own-expression: no method of an expression type assigns its receiver's expr/cons field")
}

// E11.lookup-block — the dependent-body lookup reads dependency keys from the block's labels
// *and* from the attributes of its body: the block handed to it must be the parsed block
// (AsHCLBlock() / a block of a decoded body), not a header-only reconstruction.
func runLookupBlockComplete(p *Prog, r *Report) {
	n := 0
	for _, fn := range p.Funcs {
		if fn.Body == nil {
			continue
		}
		info := fn.Info()
		ast.Inspect(fn.Body, func(z ast.Node) bool {
			if lit, ok := z.(*ast.FuncLit); ok && lit != fn.Lit {
				return false
			}
			call, ok := z.(*ast.CallExpr)
			if !ok {
				return true
			}
			f := calleeOf(info, call)
			if f == nil || (fname(f) != "DependentBodySchema" && fname(f) != "MergeBlockBodySchemas") || p.FuncOf[f] == nil {
				return true
			}
			for _, a := range call.Args {
				if !typeIsPtrTo(info.TypeOf(a), "hcl/v2", "Block") {
					continue
				}
				n++
				src := ast.Unparen(a)
				if id, ok := src.(*ast.Ident); ok {
					if def := fn.SingleDef(info.ObjectOf(id)); def != nil {
						src = ast.Unparen(def)
					}
				}
				if u, ok := src.(*ast.UnaryExpr); ok && u.Op == token.AND {
					src = ast.Unparen(u.X)
				}
				key := "call " + fname(f) + "(" + short(exprStr(a), 30) + ")"
				if cl, ok := src.(*ast.CompositeLit); ok && litField(cl, "Body") == nil {
					r.Add("E11.lookup-block", fn.Name, key, p.Pos(call), Violated,
						"the block passed to the dependent-body lookup is built here without its Body: dependency keys that are attributes cannot be read, so a different (or no) dependent body is selected than for the same block elsewhere", true)
				} else {
					r.Add("E11.lookup-block", fn.Name, key, p.Pos(call), OK, "the parsed block is passed on", true)
				}
			}
			return true
		})
	}
	r.Counts["E11.lookup-block-arguments"] = n
	r.ExpectMin("E11.lookup-block-arguments", n, 5)
	r.Clauses = append(r.Clauses, "E11.lookup-block: every dependent-body lookup receives the parsed block (never a literal without Body)")
}

// E15.single-pass-loop — a range loop whose body ends in an unconditional `break` examines at
// most one element that gets past its `continue` filters: whatever the loop searches for is
// then only looked for in the first candidate, and the answer depends on element order.
func runSinglePassLoop(p *Prog, r *Report) {
	n := 0
	for _, fn := range p.Funcs {
		if fn.Body == nil {
			continue
		}
		ast.Inspect(fn.Body, func(z ast.Node) bool {
			if lit, ok := z.(*ast.FuncLit); ok && lit != fn.Lit {
				return false
			}
			rs, ok := z.(*ast.RangeStmt)
			if !ok || len(rs.Body.List) == 0 {
				return true
			}
			n++
			last := rs.Body.List[len(rs.Body.List)-1]
			if br, ok := last.(*ast.BranchStmt); ok && br.Tok == token.BREAK && br.Label == nil && len(rs.Body.List) > 1 {
				r.Add("E15.single-pass-loop", fn.Name, "range "+cmpText(rs.X)+" ends in break", p.Pos(br), Violated,
					"the loop body ends in an unconditional break: only the first element that is not skipped is examined, later elements that would succeed are never tried", true)
			}
			return true
		})
	}
	r.Counts["E15.range-loops-examined"] = n
	r.ExpectMin("E15.range-loops-examined", n, 100)
	r.Clauses = append(r.Clauses, "E15.single-pass-loop: no range loop body ends in an unconditional break")
}

// E3.append-through-alias — `x := y; …; x = append(x, …)` while y stays in use: x is y's slice
// header, so the append writes into y's backing array whenever y has spare capacity; two
// such appends (one per loop iteration, or one per sibling) overwrite each other's elements.
// The self-assignment form hides what E3.append-alias reports for `z := append(y, …)`.
func runAppendThroughAlias(p *Prog, r *Report) {
	n := 0
	for _, fn := range p.Funcs {
		if fn.Body == nil {
			continue
		}
		info := fn.Info()
		ast.Inspect(fn.Body, func(z ast.Node) bool {
			if lit, ok := z.(*ast.FuncLit); ok && lit != fn.Lit {
				return false
			}
			as, ok := z.(*ast.AssignStmt)
			if !ok || len(as.Lhs) != 1 || len(as.Rhs) != 1 {
				return true
			}
			call, ok := ast.Unparen(as.Rhs[0]).(*ast.CallExpr)
			if !ok || !isBuiltinCall(info, call, "append") || len(call.Args) < 2 {
				return true
			}
			xid, ok := ast.Unparen(as.Lhs[0]).(*ast.Ident)
			if !ok || !isIdentObj(info, call.Args[0], info.ObjectOf(xid)) {
				return true
			}
			xo, ok := info.ObjectOf(xid).(*types.Var)
			if !ok {
				return true
			}
			n++
			// definitions of x that copy another variable's slice header
			for _, d := range defsOfIdent(fn, xo) {
				if d == nil {
					continue
				}
				yid, ok := ast.Unparen(d).(*ast.Ident)
				if !ok {
					continue
				}
				yo, ok := info.ObjectOf(yid).(*types.Var)
				if !ok || yo == xo || yo.IsField() {
					continue
				}
				if _, isSlice := yo.Type().Underlying().(*types.Slice); !isSlice {
					continue
				}
				// is y still in use after the append: some read of y is reachable from the append
				// without y being re-defined on the way (covers the next loop iteration)
				live := false
				ast.Inspect(fn.Body, func(m ast.Node) bool {
					if live {
						return false
					}
					if u, ok := m.(*ast.Ident); ok && info.Uses[u] == yo && u != yid {
						if reachesWithoutRedef(fn, as, u, yo) {
							live = true
						}
					}
					return true
				})
				// a parameter is the caller's slice: always live
				if rootOf(fn).isParam(yo) || fn.isParam(yo) {
					live = true
				}
				// a variable captured from the enclosing function: in use when anything outside
				// this literal reads it
				if !live && fn.Lit != nil && (yo.Pos() < fn.Lit.Pos() || yo.Pos() > fn.Lit.End()) {
					ast.Inspect(rootOf(fn).Body, func(m ast.Node) bool {
						if m == ast.Node(fn.Lit) {
							return false
						}
						if u, ok := m.(*ast.Ident); ok && info.Uses[u] == yo {
							live = true
						}
						return !live
					})
				}
				if live {
					r.Add("E3.append-through-alias", fn.Name, xid.Name+" = append("+xid.Name+", …) with "+xid.Name+" := "+yid.Name, p.Pos(as), Violated,
						xid.Name+" is a copy of the slice header of "+yid.Name+", which stays in use: the append stores into "+yid.Name+"'s backing array when it has spare capacity, so successive appends (siblings, iterations, later callers) overwrite each other's elements", true)
				}
			}
			return true
		})
	}
	r.Counts["E3.self-appends-examined"] = n
	r.ExpectMin("E3.self-appends-examined", n, 100)
	r.Clauses = append(r.Clauses, "E3.append-through-alias: no x = append(x, …) where x was defined as a plain copy of another slice variable that stays in use")
}

// E5.copy-order — a Copy method returns its receiver's elements in the receiver's order: it
// never sorts (a sorted copy is a permutation of the original, not an equal value).
func runCopyKeepsOrder(p *Prog, r *Report) {
	n := 0
	for _, fn := range p.Funcs {
		if fn.Body == nil || fn.Obj == nil || fn.Lit != nil || fname(fn.Obj) != "Copy" {
			continue
		}
		if sig := fn.Obj.Type().(*types.Signature); sig.Recv() == nil {
			continue
		}
		n++
		info := fn.Info()
		ast.Inspect(fn.Body, func(z ast.Node) bool {
			call, ok := z.(*ast.CallExpr)
			if !ok {
				return true
			}
			if _, isSort := isSortCall(info, call); isSort {
				r.Add("E5.copy-order", fn.Name, "call "+calleeFull(info, call), p.Pos(call), Violated,
					"a Copy method sorts: the copy is a permutation of the original's elements, so it is not structurally equal to the original unless that happened to be sorted", true)
			}
			return true
		})
	}
	// E5.copy-filter — a Copy method that copies a collection element by element keeps every
	// element: an append / store inside the loop may be guarded by a nil test only (a copy that
	// drops duplicates, empty or "uninteresting" elements is shorter than the original)
	for _, fn := range p.Funcs {
		if fn.Body == nil || fn.Obj == nil || fn.Lit != nil || fname(fn.Obj) != "Copy" {
			continue
		}
		if sig := fn.Obj.Type().(*types.Signature); sig.Recv() == nil {
			continue
		}
		info := fn.Info()
		ast.Inspect(fn.Body, func(z ast.Node) bool {
			var body *ast.BlockStmt
			switch l := z.(type) {
			case *ast.RangeStmt:
				body = l.Body
			case *ast.ForStmt:
				body = l.Body
			}
			if body == nil {
				return true
			}
			ast.Inspect(body, func(k ast.Node) bool {
				as, ok := k.(*ast.AssignStmt)
				if !ok || len(as.Lhs) != 1 || len(as.Rhs) != 1 {
					return true
				}
				isStore := false
				if call, ok := ast.Unparen(as.Rhs[0]).(*ast.CallExpr); ok && isBuiltinCall(info, call, "append") {
					isStore = true
				}
				if _, ok := ast.Unparen(as.Lhs[0]).(*ast.IndexExpr); ok {
					isStore = true
				}
				if !isStore {
					return true
				}
				for _, a := range fn.GuardsAt(as).AllAtoms() {
					if a == nil || a.E == nil || a.Expanded || !a.E.Pos().IsValid() || a.E.Pos() < body.Pos() || a.E.Pos() > body.End() {
						continue
					}
					if be, ok := ast.Unparen(a.E).(*ast.BinaryExpr); ok && (be.Op == token.EQL || be.Op == token.NEQ) && (isNilIdent(info, be.X) || isNilIdent(info, be.Y)) {
						continue
					}
					r.Add("E5.copy-filter", fn.Name, "element copy under "+short(exprStr(a.E), 50), p.Pos(as), Violated,
						"a Copy method copies an element only under a condition that is not a nil test ("+exprStr(a.E)+"): the copy can have fewer elements than the original and is then not equal to it", true)
					return true
				}
				return true
			})
			return true
		})
	}
	r.Counts["E5.copy-methods-examined-for-order"] = n
	r.ExpectMin("E5.copy-methods-examined-for-order", n, 20)
	r.Clauses = append(r.Clauses, "E5.copy-order: no Copy method sorts; E5.copy-filter: no Copy method copies elements under a condition other than a nil test")
}

// E11.path-identity — a lang.Path is identified by directory *and* language: per-path data
// must be keyed by the whole lang.Path value, never by its Path (directory) string alone.
func runPathIdentity(p *Prog, r *Report) {
	n := 0
	for _, fn := range p.Funcs {
		if fn.Body == nil {
			continue
		}
		info := fn.Info()
		ast.Inspect(fn.Body, func(z ast.Node) bool {
			ix, ok := z.(*ast.IndexExpr)
			if !ok {
				return true
			}
			if t := info.TypeOf(ix.X); t == nil {
				return true
			} else if _, isMap := t.Underlying().(*types.Map); !isMap {
				return true
			}
			n++
			key := ast.Unparen(fn.InlineLocals(ix.Index, 2))
			sel, ok := key.(*ast.SelectorExpr)
			if !ok || sel.Sel.Name != "Path" {
				return true
			}
			if t := info.TypeOf(sel.X); t != nil && typeIs(t, "hcl-lang/lang", "Path") {
				r.Add("E11.path-identity", fn.Name, "map key "+exprStr(ix.Index), p.Pos(ix), Violated,
					"a map is keyed by the directory string of a lang.Path: two paths with the same directory and different LanguageID (e.g. terraform and terraform-vars) share one entry", true)
			}
			return true
		})
	}
	r.Counts["E11.map-index-expressions"] = n
	r.ExpectMin("E11.map-index-expressions", n, 50)
	r.Clauses = append(r.Clauses, "E11.path-identity: no map is keyed by lang.Path.Path alone")
}

// E6.no-rebase — byte offsets everywhere in the module are offsets into the whole file. A
// function that receives file bytes together with a position must not re-slice its byte
// parameter from a non-zero start and go on computing offsets on the shorter slice: they
// would be window-relative while every caller (and callback) compares them with file offsets.
func runNoRebase(p *Prog, r *Report) {
	n := 0
	for _, fn := range p.Funcs {
		if fn.Body == nil || fn.Lit != nil || fn.Obj == nil {
			continue
		}
		sig := fn.Obj.Type().(*types.Signature)
		var byteParams []*types.Var
		hasPos := false
		for i := 0; i < sig.Params().Len(); i++ {
			v := sig.Params().At(i)
			if sl, ok := v.Type().Underlying().(*types.Slice); ok {
				if b, ok := sl.Elem().Underlying().(*types.Basic); ok && b.Kind() == types.Byte {
					byteParams = append(byteParams, v)
				}
			}
			if isHclPos(v.Type()) || isHclRange(v.Type()) {
				hasPos = true
			}
		}
		if len(byteParams) == 0 || !hasPos {
			continue
		}
		n++
		info := fn.Info()
		ast.Inspect(fn.Body, func(z ast.Node) bool {
			as, ok := z.(*ast.AssignStmt)
			if !ok || len(as.Lhs) != len(as.Rhs) {
				return true
			}
			for i, l := range as.Lhs {
				for _, bp := range byteParams {
					if !isIdentObj(info, l, bp) {
						continue
					}
					se, ok := ast.Unparen(as.Rhs[i]).(*ast.SliceExpr)
					if !ok || !isIdentObj(info, se.X, bp) || se.Low == nil {
						continue
					}
					if v, isC := constInt(info, se.Low); isC && v == 0 {
						continue
					}
					r.Add("E6.no-rebase", fn.Name, exprStr(l)+" = "+exprStr(as.Rhs[i]), p.Pos(as), Violated,
						"the file bytes are re-sliced from a non-zero start: offsets computed on them afterwards are relative to that window, while positions and the offsets callers compare them with are relative to the file", true)
				}
			}
			return true
		})
	}
	r.Counts["E6.functions-taking-bytes-and-position"] = n
	r.ExpectMin("E6.functions-taking-bytes-and-position", n, 2)
	r.Clauses = append(r.Clauses, "E6.no-rebase: a function taking file bytes and a position never re-slices the bytes from a non-zero start")
}

// E15.conversion-source-siblings — the feature walkers of decoder.Any ask the same question
// before descending into an operator, template, … node: "can what this node produces be used
// where the constraint's type is expected". Within the walkers of one node kind the produced
// type (the source of the conversion check against the receiver's constraint) must be the same
// expression of the node; a walker that checks another type (an operand's instead of the
// result's) accepts or rejects the node differently from its siblings.
func runConversionSourceSiblings(p *Prog, r *Report) {
	type site struct {
		fn   *Func
		call *ast.CallExpr
		val  string
	}
	groups := map[string][]site{}
	for _, fn := range p.Funcs {
		if fn.Body == nil || !anyRecv(fn) {
			continue
		}
		info := fn.Info()
		ast.Inspect(fn.Body, func(z ast.Node) bool {
			call, ok := z.(*ast.CallExpr)
			if !ok || len(call.Args) != 2 {
				return true
			}
			full := calleeFull(info, call)
			if !strings.HasSuffix(full, "cty/convert.Convert") && !strings.HasSuffix(full, "cty/convert.GetConversion") && !strings.HasSuffix(full, "cty/convert.GetConversionUnsafe") {
				return true
			}
			if !strings.HasSuffix(exprStr(fn.InlineLocals(call.Args[1], 2)), ".cons.OfType") {
				return true
			}
			// a helper that makes the check for its callers: judged at each call site, with
			// the parameter read as the argument
			if root := rootOf(fn); root.Type.Params != nil {
				if id, ok := ast.Unparen(fn.InlineLocals(call.Args[0], 3)).(*ast.CallExpr); ok && len(id.Args) == 1 {
					if pid, ok := ast.Unparen(id.Args[0]).(*ast.Ident); ok && root.isParam(info.ObjectOf(pid)) {
						idx, k := -1, 0
						for _, f := range root.Type.Params.List {
							for _, nm := range f.Names {
								if info.ObjectOf(nm) == info.ObjectOf(pid) {
									idx = k
								}
								k++
							}
						}
						for _, cs := range inheritSites(root) {
							if idx < 0 || idx >= len(cs.call.Args) {
								continue
							}
							kind, tsVar := enclosingCaseKind(p, cs.fn, cs.call)
							if kind == "" {
								continue
							}
							src := replaceWord(exprStr(id), pid.Name, exprStr(cs.fn.InlineLocals(cs.call.Args[idx], 3)))
							if tsVar != "" {
								src = replaceWord(src, tsVar, "#")
							}
							groups[kind] = append(groups[kind], site{cs.fn, cs.call, src})
						}
						return true
					}
				}
			}
			// the node kind handled here: innermost enclosing type-switch clause
			kind, tsVar := "", ""
			for q := p.Parent(call); q != nil; q = p.Parent(q) {
				cc, ok := q.(*ast.CaseClause)
				if !ok {
					continue
				}
				ts, ok := p.Parent(p.Parent(cc)).(*ast.TypeSwitchStmt)
				if !ok || len(cc.List) != 1 {
					continue
				}
				if pt, ok := info.TypeOf(cc.List[0]).(*types.Pointer); ok {
					if nt := namedOf(pt); nt != nil {
						kind = nt.Obj().Name()
					}
				}
				if as, ok := ts.Assign.(*ast.AssignStmt); ok && len(as.Lhs) == 1 {
					if id, ok := as.Lhs[0].(*ast.Ident); ok {
						tsVar = id.Name
					}
				}
				break
			}
			if kind == "" {
				return true
			}
			src := exprStr(fn.InlineLocals(call.Args[0], 3))
			if tsVar != "" {
				src = replaceWord(src, tsVar, "#")
			}
			groups[kind] = append(groups[kind], site{fn, call, src})
			return true
		})
	}
	var kinds []string
	for k := range groups {
		kinds = append(kinds, k)
	}
	sort.Strings(kinds)
	n := 0
	for _, k := range kinds {
		ss := groups[k]
		cnt := map[string]int{}
		for _, s := range ss {
			cnt[s.val]++
		}
		best, bestN := "", 0
		for v, c := range cnt {
			if c > bestN || c == bestN && v < best {
				best, bestN = v, c
			}
		}
		for _, s := range ss {
			n++
			key := "produced type of *hclsyntax." + k
			switch {
			case len(ss) < 3 || bestN < len(ss)-1:
				r.Add("E15.conversion-source-siblings", s.fn.Name, key, p.Pos(s.call), OK, "too few agreeing siblings to cross-check", false)
			case s.val == best:
				r.Add("E15.conversion-source-siblings", s.fn.Name, key, p.Pos(s.call), OK, fmt.Sprintf("agrees with %d of %d walkers of this node kind (%s)", bestN, len(ss), best), true)
			default:
				r.Add("E15.conversion-source-siblings", s.fn.Name, key, p.Pos(s.call), Violated,
					fmt.Sprintf("%d of %d walkers of *hclsyntax.%s check whether %s converts to the constraint's type; this one checks %s instead, so it accepts or rejects the node differently from its siblings", bestN, len(ss), k, best, s.val), true)
			}
		}
	}
	r.ExpectMin("E15.conversion-source-sites", n, 6)
	r.Clauses = append(r.Clauses, "E15.conversion-source-siblings: the walkers of decoder.Any for one syntax node kind agree on the produced type they check against the constraint's type")
}

// enclosingCaseKind: the hclsyntax node type of the innermost single-type type-switch clause
// around n, and the name the switch binds.
func enclosingCaseKind(p *Prog, fn *Func, n ast.Node) (kind, tsVar string) {
	info := fn.Info()
	for q := p.Parent(n); q != nil; q = p.Parent(q) {
		cc, ok := q.(*ast.CaseClause)
		if !ok {
			continue
		}
		ts, ok := p.Parent(p.Parent(cc)).(*ast.TypeSwitchStmt)
		if !ok || len(cc.List) != 1 {
			continue
		}
		if pt, ok := info.TypeOf(cc.List[0]).(*types.Pointer); ok {
			if nt := namedOf(pt); nt != nil {
				kind = nt.Obj().Name()
			}
		}
		if as, ok := ts.Assign.(*ast.AssignStmt); ok && len(as.Lhs) == 1 {
			if id, ok := as.Lhs[0].(*ast.Ident); ok {
				tsVar = id.Name
			}
		}
		return
	}
	return
}

// E2.derived-key-cache — a memo table filled while ranging over a Go map, keyed by something
// *derived* from the memoised input (a name, a String(), a formatted text) instead of the
// input itself: inputs that share the derived key share one verdict — that of whichever the
// map iteration visited first — so the result differs from run to run.
func runDerivedKeyCache(p *Prog, r *Report) {
	n := 0
	for _, fn := range p.Funcs {
		if fn.Body == nil || fn.Lit != nil {
			continue
		}
		info := fn.Info()
		// scopes executed once per element of a map range: the loop bodies and the local
		// closures called from them
		var scopes []ast.Node
		ast.Inspect(fn.Body, func(z ast.Node) bool {
			rs, ok := z.(*ast.RangeStmt)
			if !ok {
				return true
			}
			if _, isMap := info.TypeOf(rs.X).Underlying().(*types.Map); !isMap {
				return true
			}
			n++
			scopes = append(scopes, rs.Body)
			ast.Inspect(rs.Body, func(k ast.Node) bool {
				call, ok := k.(*ast.CallExpr)
				if !ok {
					return true
				}
				if id, ok := ast.Unparen(call.Fun).(*ast.Ident); ok {
					if o := info.ObjectOf(id); o != nil {
						if def := fn.SingleDef(o); def != nil {
							if lit, ok := ast.Unparen(def).(*ast.FuncLit); ok {
								scopes = append(scopes, lit.Body)
							}
						}
					}
				}
				return true
			})
			return true
		})
		for _, sc := range scopes {
			// c[k] = v together with a comma-ok read of c[k] in the same scope
			stores := map[string]*ast.AssignStmt{}
			reads := map[string]bool{}
			ast.Inspect(sc, func(k ast.Node) bool {
				as, ok := k.(*ast.AssignStmt)
				if !ok {
					return true
				}
				if len(as.Lhs) == 1 && len(as.Rhs) == 1 {
					if ix, ok := ast.Unparen(as.Lhs[0]).(*ast.IndexExpr); ok {
						if _, isMap := info.TypeOf(ix.X).Underlying().(*types.Map); isMap && pathOf(info, ix) != "" {
							stores[pathOf(info, ix)] = as
						}
					}
				}
				if len(as.Lhs) == 2 && len(as.Rhs) == 1 {
					if ix, ok := ast.Unparen(as.Rhs[0]).(*ast.IndexExpr); ok {
						if _, isMap := info.TypeOf(ix.X).Underlying().(*types.Map); isMap && pathOf(info, ix) != "" {
							reads[pathOf(info, ix)] = true
						}
					}
				}
				return true
			})
			for path, st := range stores {
				if !reads[path] {
					continue
				}
				ix := ast.Unparen(st.Lhs[0]).(*ast.IndexExpr)
				// the table lives outside the per-element scope
				root, _ := pathSteps(ix.X)
				if root == nil {
					continue
				}
				if o := info.ObjectOf(root); o == nil || (o.Pos() >= sc.Pos() && o.Pos() <= sc.End()) {
					continue
				}
				kid, ok := ast.Unparen(ix.Index).(*ast.Ident)
				if !ok {
					continue
				}
				ko := info.ObjectOf(kid)
				var def ast.Expr
				for _, f := range p.Funcs {
					if rootFunc(f) == fn || f == fn {
						if d := f.SingleDef(ko); d != nil {
							def = d
						}
					}
				}
				call, isCall := ast.Unparen(def).(*ast.CallExpr)
				if def == nil || !isCall {
					continue
				}
				if tv, ok := info.Types[call.Fun]; ok && tv.IsType() {
					continue // a conversion keeps the value
				}
				r.Add("E2.derived-key-cache", fn.Name, "memo "+exprStr(ix.X)+" keyed by "+exprStr(def), p.Pos(st), Violated,
					"a memo table is filled while ranging over a Go map and keyed by "+exprStr(def)+", which is derived from the memoised input rather than being it: inputs that share the key get the verdict of whichever the map iteration visits first", true)
			}
		}
	}
	r.Counts["E2.map-ranges-examined-for-memo-tables"] = n
	r.ExpectMin("E2.map-ranges-examined-for-memo-tables", n, 30)
	r.Clauses = append(r.Clauses, "E2.derived-key-cache: no memo table filled in map iteration order is keyed by a value derived from (rather than equal to) the memoised input")
}
