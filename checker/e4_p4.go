package main

// E4.P4 — single-value type assertions x.(T) panic on a mismatch; each needs a dominating
// type-switch case / comma-ok on the same value, or a reviewed pairing argument.

import (
	"go/ast"
	"go/types"
)

func runP4(p *Prog, r *Report) {
	n := 0
	for _, fn := range p.Funcs {
		info := fn.Info()
		ast.Inspect(fn.Body, func(x ast.Node) bool {
			if lit, ok := x.(*ast.FuncLit); ok && lit != fn.Lit {
				return false
			}
			ta, ok := x.(*ast.TypeAssertExpr)
			if !ok || ta.Type == nil {
				return true
			}
			// comma-ok form?
			par := p.Parent(ta)
			for {
				if pe, ok := par.(*ast.ParenExpr); ok {
					par = p.Parent(pe)
					continue
				}
				break
			}
			switch pp := par.(type) {
			case *ast.AssignStmt:
				if len(pp.Lhs) == 2 && len(pp.Rhs) == 1 {
					return true
				}
			case *ast.ValueSpec:
				if len(pp.Names) == 2 && len(pp.Values) == 1 {
					return true
				}
			}
			n++
			construct := exprStr(ta)
			target := info.TypeOf(ta.Type)
			xp := fn.Canon(ta.X)
			// dominating type-switch case on the same value with an assignable type
			okGuard := false
			if xp != "" {
				okGuard = fn.GuardsAt(ta).Holds(func(a *Atom) bool {
					if a.TypeX == nil || !a.Pol || fn.Canon(a.TypeX) != xp {
						return false
					}
					for _, te := range a.Types {
						tt := info.TypeOf(te)
						if tt == nil {
							return false
						}
						if !types.AssignableTo(tt, target) && !types.Identical(tt, target) {
							if iface, ok := target.Underlying().(*types.Interface); !ok || !types.Implements(tt, iface) {
								return false
							}
						}
					}
					if ok, _ := fn.guardStillValid(a, a.TypeX, ta); !ok {
						return false
					}
					return true
				})
			}
			if okGuard {
				r.Add("E4.P4-type-assert", fn.Name, construct, p.Pos(ta), OK, "dominated by a type-switch case on the same value", true)
				return true
			}
			if ex, ok := p4Exceptions[fn.Name+"|"+construct]; ok {
				if ex.premise == nil || ex.premise(p, fn, ta) {
					r.Add("E4.P4-type-assert", fn.Name, construct, p.Pos(ta), Excepted, ex.why, true)
					return true
				}
				r.Add("E4.P4-type-assert", fn.Name, construct, p.Pos(ta), Violated, "the premise of the reviewed exception no longer holds: "+ex.why, true)
				return true
			}
			r.Add("E4.P4-type-assert", fn.Name, construct, p.Pos(ta), Violated, "single-value type assertion without a dominating type test on "+exprStr(ta.X), true)
			return true
		})
	}
	r.ExpectMin("E4.P4-assertions", n, 5)
	r.Clauses = append(r.Clauses, "E4.P4 every single-value type assertion is dominated by a type-switch case on the same value or matches a reviewed pairing argument whose premise is re-checked")
}

type p4Exception struct {
	why     string
	premise func(p *Prog, fn *Func, ta *ast.TypeAssertExpr) bool
}

var p4Exceptions = map[string]p4Exception{}
