package main

// E4.P5 — optional references. A value that the schema API documents (and the code
// treats) as optional must not be dereferenced unless every path from where it may be nil
// to the dereference crosses an edge that establishes it non-nil (x != nil, comma-ok
// success, a helper result tied to non-nil) or re-assigns it.

import (
	"fmt"
	"go/ast"
	"go/token"
	"go/types"
	"strings"

	"golang.org/x/tools/go/cfg"
)

// nullableFields: (package suffix, type, field) the API documents as optional.
var nullableFields = map[string]bool{
	"schema.BlockSchema.Body": true, "schema.BlockSchema.Address": true,
	"schema.BodySchema.Extensions": true, "schema.BodySchema.AnyAttribute": true, "schema.BodySchema.DocsLink": true, "schema.BodySchema.Targets": true,
	"schema.AttributeSchema.Address": true, "schema.AttributeSchema.OriginForTarget": true, "schema.AttributeSchema.DefaultValue": true,
	"schema.BlockAddrSchema.AsTypeOf": true, "schema.Reference.Address": true, "schema.FunctionSignature.VarParam": true,
	"schema.List.Elem": true, "schema.Set.Elem": true, "schema.Map.Elem": true,
	"reference.Target.RangePtr": true, "reference.Target.DefRangePtr": true, "reference.Target.TargetableFromRangePtr": true,
	"decoder.TargetContext.ParentRangePtr": true, "decoder.TargetContext.ParentDefRangePtr": true, "decoder.TargetContext.TargetableFromRangePtr": true,
	"ast.BodyContent.RangePtr": true, "hcl.Attribute.Expr": false,
}

type p5 struct {
	p            *Prog
	r            *Report
	mayNil       map[*types.Func]map[int]string // function result index -> why it may be nil
	nilWithErr   map[*types.Func]map[int]bool   // result i is nil only on returns whose error result is non-nil
	nilWithFalse map[*types.Func]map[int]bool   // result i is nil only on returns whose last (bool) result is false
	implCache    map[*Func][]implication
	enumOK       map[*Func]bool
	callers      map[*types.Func][]callSite
	tolerant     map[*types.Func]bool // pointer-receiver method that guards its receiver
	tolDone      map[*types.Func]bool
	nSites       int
	nNullable    int
}

// typeOfSynth: static type of an expression that may contain synthesised selector nodes
// (built when a parameter path is substituted at a call site).
func typeOfSynth(info *types.Info, e ast.Expr) types.Type {
	if t := info.TypeOf(e); t != nil {
		return t
	}
	switch x := ast.Unparen(e).(type) {
	case *ast.SelectorExpr:
		bt := typeOfSynth(info, x.X)
		if bt == nil {
			return nil
		}
		obj, _, _ := types.LookupFieldOrMethod(bt, true, nil, x.Sel.Name)
		if obj == nil {
			// unexported field of another package: look through the struct directly
			if n := namedOf(bt); n != nil {
				if st, ok := n.Underlying().(*types.Struct); ok {
					for i := 0; i < st.NumFields(); i++ {
						if st.Field(i).Name() == x.Sel.Name {
							return st.Field(i).Type()
						}
					}
				}
			}
			return nil
		}
		return obj.Type()
	case *ast.StarExpr:
		if bt := typeOfSynth(info, x.X); bt != nil {
			if p, ok := bt.Underlying().(*types.Pointer); ok {
				return p.Elem()
			}
		}
	}
	return nil
}

func fieldKey(info *types.Info, sel *ast.SelectorExpr) string {
	s, ok := info.Selections[sel]
	if !ok {
		// synthesised selector
		bt := typeOfSynth(info, sel.X)
		n := namedOf(bt)
		if n == nil || n.Obj().Pkg() == nil {
			return ""
		}
		if _, isStruct := n.Underlying().(*types.Struct); !isStruct {
			return ""
		}
		path := n.Obj().Pkg().Path()
		return path[strings.LastIndex(path, "/")+1:] + "." + n.Obj().Name() + "." + sel.Sel.Name
	}
	if s.Kind() != types.FieldVal {
		return ""
	}
	n := namedOf(s.Recv())
	if n == nil || n.Obj().Pkg() == nil {
		return ""
	}
	path := n.Obj().Pkg().Path()
	return path[strings.LastIndex(path, "/")+1:] + "." + n.Obj().Name() + "." + sel.Sel.Name
}

func isNilableType(t types.Type) bool {
	if t == nil {
		return false
	}
	switch u := t.Underlying().(type) {
	case *types.Pointer, *types.Interface, *types.Map:
		return true
	case *types.Basic:
		return u.Kind() == types.UntypedNil // the literal nil itself
	}
	return false
}

// nullableExpr: may e evaluate to nil (by table / construction)? returns a reason.
func (c *p5) nullableExpr(fn *Func, e ast.Expr) string {
	info := fn.Info()
	e = ast.Unparen(e)
	if !isNilableType(typeOfSynth(info, e)) {
		return ""
	}
	switch x := e.(type) {
	case *ast.SelectorExpr:
		if k := fieldKey(info, x); k != "" && nullableFields[k] {
			return "optional field " + k
		}
	case *ast.IndexExpr:
		if t := info.TypeOf(x.X); t != nil {
			if _, ok := t.Underlying().(*types.Map); ok {
				if c.keyFromSameMap(fn, x) {
					return ""
				}
				return "single-value map lookup " + exprStr(x) + " (nil when the key is absent)"
			}
		}
	case *ast.CallExpr:
		if f := calleeOf(info, x); f != nil {
			if m := c.mayNil[f]; m != nil {
				if why, ok := m[0]; ok {
					return "result of " + funcName(f) + ", which may return nil (" + why + ")"
				}
			}
		}
	case *ast.Ident:
		if _, isNil := info.ObjectOf(x).(*types.Nil); isNil {
			return "nil"
		}
	}
	return ""
}

// keysOfField: methods that return the (sorted) keys of a map field of their receiver.
var keysOfField = map[string]string{"AttributeNames": "Attributes", "BlockTypes": "Blocks"}

// keyFromSameMap: m[k] where k ranges over the keys of that same map — directly, through a
// helper called with the map (sortedKeys(m)), through a keys-of-field method, or through a
// slice filled while ranging over the map.
func (c *p5) keyFromSameMap(fn *Func, ie *ast.IndexExpr) bool {
	info := fn.Info()
	kid, ok := ast.Unparen(ie.Index).(*ast.Ident)
	if !ok {
		return false
	}
	ko := info.ObjectOf(kid)
	mp := fn.Canon(ie.X)
	if ko == nil || mp == "" {
		return false
	}
	as := fn.Assignments(ko)
	if len(as) != 1 {
		return false
	}
	rs, ok := as[0].(*ast.RangeStmt)
	var elemOf ast.Expr
	if !ok {
		// k := keys[i]: an element of the keys slice taken by index
		if st, isAs := as[0].(*ast.AssignStmt); isAs && len(st.Lhs) == 1 && len(st.Rhs) == 1 {
			if ix, isIx := ast.Unparen(st.Rhs[0]).(*ast.IndexExpr); isIx {
				if _, isSlice := info.TypeOf(ix.X).Underlying().(*types.Slice); isSlice {
					elemOf = ix.X
				}
			}
		}
		if elemOf == nil {
			return false
		}
		rs = nil
	}
	// map must not be re-assigned inside the loop
	for _, o := range pathObjects(info, ie.X) {
		if len(fn.Assignments(o)) > 1 {
			return false
		}
	}
	var keysFrom func(x ast.Expr, depth int) bool
	keysFrom = func(x ast.Expr, depth int) bool {
		x = ast.Unparen(x)
		if fn.Canon(x) == mp {
			// ranging the map itself: k must be the key variable
			if rs == nil {
				return false
			}
			if id, ok := rs.Key.(*ast.Ident); ok && info.ObjectOf(id) == ko {
				return true
			}
			return false
		}
		if call, ok := x.(*ast.CallExpr); ok {
			for _, a := range call.Args {
				if fn.Canon(a) == mp {
					return true
				}
			}
			if sel, ok := ast.Unparen(call.Fun).(*ast.SelectorExpr); ok && len(call.Args) == 0 {
				if fld, ok := keysOfField[sel.Sel.Name]; ok {
					if b := fn.Canon(sel.X); b != "" && b+"."+fld == mp {
						return true
					}
				}
			}
			return false
		}
		if id, ok := x.(*ast.Ident); ok && depth < 2 {
			o := info.ObjectOf(id)
			if o == nil {
				return false
			}
			if def := fn.SingleDef(o); def != nil {
				if keysFrom2(fn, def, mp) {
					return true
				}
			}
			// slice filled in a range over the map: names = append(names, key)
			good, n := true, 0
			for _, a := range fn.Assignments(o) {
				s, ok := a.(*ast.AssignStmt)
				if !ok || len(s.Rhs) != 1 {
					good = false
					continue
				}
				r := ast.Unparen(s.Rhs[0])
				if call, ok := r.(*ast.CallExpr); ok && isBuiltinCall(info, call, "make") {
					continue
				}
				if call, ok := r.(*ast.CallExpr); ok && isBuiltinCall(info, call, "append") && len(call.Args) == 2 {
					// the key is remembered right where it is inserted: m[k] = v; keys = append(keys, k)
					if aid, ok := ast.Unparen(call.Args[1]).(*ast.Ident); ok {
						if blk, ok := fn.Prog.parents[s].(*ast.BlockStmt); ok {
							inserted := false
							for _, sib := range blk.List {
								as2, ok := sib.(*ast.AssignStmt)
								if !ok || len(as2.Lhs) != 1 || len(as2.Rhs) != 1 {
									continue
								}
								ix2, ok := ast.Unparen(as2.Lhs[0]).(*ast.IndexExpr)
								if !ok || fn.Canon(ix2.X) != mp {
									continue
								}
								if kid2, ok := ast.Unparen(ix2.Index).(*ast.Ident); ok && info.ObjectOf(kid2) == info.ObjectOf(aid) {
									inserted = true
								}
							}
							if inserted {
								n++
								continue
							}
						}
					}
					if aid, ok := ast.Unparen(call.Args[1]).(*ast.Ident); ok {
						ao := info.ObjectOf(aid)
						if aas := fn.Assignments(ao); len(aas) == 1 {
							if ars, ok := aas[0].(*ast.RangeStmt); ok && fn.Canon(ars.X) == mp {
								if k2, ok := ars.Key.(*ast.Ident); ok && info.ObjectOf(k2) == ao {
									n++
									continue
								}
							}
						}
					}
				}
				good = false
			}
			return good && n > 0
		}
		return false
	}
	if elemOf != nil {
		return keysFrom(elemOf, 0)
	}
	if id, ok := rs.Value.(*ast.Ident); ok && info.ObjectOf(id) == ko {
		return keysFrom(rs.X, 0)
	}
	if id, ok := rs.Key.(*ast.Ident); ok && info.ObjectOf(id) == ko {
		return fn.Canon(rs.X) == mp
	}
	return false
}

func keysFrom2(fn *Func, def ast.Expr, mp string) bool {
	call, ok := ast.Unparen(def).(*ast.CallExpr)
	if !ok {
		return false
	}
	for _, a := range call.Args {
		if fn.Canon(a) == mp {
			return true
		}
	}
	if sel, ok := ast.Unparen(call.Fun).(*ast.SelectorExpr); ok && len(call.Args) == 0 {
		if fld, ok := keysOfField[sel.Sel.Name]; ok {
			if b := fn.Canon(sel.X); b != "" && b+"."+fld == mp {
				return true
			}
		}
	}
	return false
}

// summaries ---------------------------------------------------------------------------

func (c *p5) computeSummaries() {
	for iter := 0; iter < 4; iter++ {
		for _, fn := range c.p.Funcs {
			if fn.Obj == nil || fn.Type.Results == nil {
				continue
			}
			info := fn.Info()
			var resTypes []types.Type
			for _, f := range fn.Type.Results.List {
				k := len(f.Names)
				if k == 0 {
					k = 1
				}
				for i := 0; i < k; i++ {
					resTypes = append(resTypes, info.TypeOf(f.Type))
				}
			}
			ast.Inspect(fn.Body, func(n ast.Node) bool {
				if _, ok := n.(*ast.FuncLit); ok {
					return false
				}
				rs, ok := n.(*ast.ReturnStmt)
				if !ok || len(rs.Results) != len(resTypes) {
					return true
				}
				errIdx := -1
				if k := len(resTypes) - 1; k >= 1 && resTypes[k] != nil && resTypes[k].String() == "error" {
					errIdx = k
				}
				for i, res := range rs.Results {
					if !isNilableType(resTypes[i]) || diagLike(resTypes[i]) || i == errIdx {
						continue
					}
					why := ""
					if isNilIdent(info, res) {
						why = "return nil at " + c.p.Pos(rs)
					} else if w := c.nullableExpr(fn, res); w != "" && !c.nonNilAt(fn, res, rs) {
						why = "returns " + w
					}
					if why != "" {
						// correlated with a non-nil error?
						withErr := false
						if errIdx >= 0 {
							ee := ast.Unparen(rs.Results[errIdx])
							switch x := ee.(type) {
							case *ast.UnaryExpr, *ast.CompositeLit:
								withErr = true
							case *ast.CallExpr:
								full := calleeFull(info, x)
								withErr = full == "fmt.Errorf" || full == "errors.New"
							case *ast.Ident:
								if o := info.ObjectOf(x); o != nil {
									withErr = hasNonNilFact(fn, o, rs)
								}
							}
						}
						withFalse := false
						if k := len(resTypes) - 1; k >= 1 && resTypes[k] != nil && resTypes[k].String() == "bool" {
							withFalse = isFalse(rs.Results[k])
						}
						if c.nilWithFalse[fn.Obj] == nil {
							c.nilWithFalse[fn.Obj] = map[int]bool{}
						}
						if prev, seen := c.nilWithFalse[fn.Obj][i]; !seen {
							c.nilWithFalse[fn.Obj][i] = withFalse
						} else {
							c.nilWithFalse[fn.Obj][i] = prev && withFalse
						}
						if c.nilWithErr[fn.Obj] == nil {
							c.nilWithErr[fn.Obj] = map[int]bool{}
						}
						if prev, seen := c.nilWithErr[fn.Obj][i]; !seen {
							c.nilWithErr[fn.Obj][i] = withErr
						} else {
							c.nilWithErr[fn.Obj][i] = prev && withErr
						}
						if c.mayNil[fn.Obj] == nil {
							c.mayNil[fn.Obj] = map[int]string{}
						}
						if _, ok := c.mayNil[fn.Obj][i]; !ok {
							c.mayNil[fn.Obj][i] = why
						}
					}
				}
				return true
			})
		}
	}
}

// receiverTolerant: pointer-receiver method whose every receiver dereference is guarded.
func (c *p5) receiverTolerant(f *types.Func) bool {
	if v, ok := c.tolDone[f]; ok && v {
		return c.tolerant[f]
	}
	c.tolDone[f] = true
	fn := c.p.FuncOf[f]
	if fn == nil || fn.Decl == nil || fn.Decl.Recv == nil || len(fn.Decl.Recv.List[0].Names) == 0 {
		return false
	}
	info := fn.Info()
	recv := info.ObjectOf(fn.Decl.Recv.List[0].Names[0])
	if recv == nil {
		// unnamed receiver: never dereferenced
		c.tolerant[f] = true
		return true
	}
	if _, isPtr := recv.Type().(*types.Pointer); !isPtr {
		return false
	}
	ok := true
	fn.CFG()
	ast.Inspect(fn.Body, func(n ast.Node) bool {
		var base ast.Expr
		switch x := n.(type) {
		case *ast.SelectorExpr:
			if s, isSel := info.Selections[x]; isSel && (s.Kind() == types.FieldVal || s.Kind() == types.MethodVal) {
				base = x.X
			}
		case *ast.StarExpr:
			base = x.X
		}
		if base == nil {
			return true
		}
		if id, isId := ast.Unparen(base).(*ast.Ident); !isId || info.ObjectOf(id) != recv {
			return true
		}
		if !hasNonNilFact(fn, recv, n) {
			ok = false
		}
		return true
	})
	c.tolerant[f] = ok
	return ok
}

// establishing edges --------------------------------------------------------------------

// nonNilAtom: does this atom establish that path (canonical) is non-nil?
func (c *p5) nonNilAtom(fn *Func, a *Atom, path string, okVar types.Object) bool {
	info := fn.Info()
	if a.E == nil {
		// type-switch case on the value with a concrete type implies non-nil
		if a.TypeX != nil && a.Pol && fn.Canon(a.TypeX) == path {
			for _, t := range a.Types {
				if isNilIdent(info, t) {
					return false
				}
			}
			return true
		}
		return false
	}
	e := ast.Unparen(a.E)
	if be, ok := e.(*ast.BinaryExpr); ok && (be.Op == token.NEQ || be.Op == token.EQL) {
		var other ast.Expr
		if isNilIdent(info, be.Y) {
			other = be.X
		} else if isNilIdent(info, be.X) {
			other = be.Y
		}
		if other != nil && fn.Canon(other) == path {
			return (be.Op == token.NEQ) == a.Pol
		}
	}
	if id, ok := e.(*ast.Ident); ok && okVar != nil && info.ObjectOf(id) == okVar && a.Pol {
		return true
	}
	return false
}

// errNilAtom: err == nil (true) / err != nil (false) for the error variable of the call
// that produced the value.
func (c *p5) errNilAtom(fn *Func, a *Atom, errVar types.Object) bool {
	if errVar == nil || a.E == nil {
		return false
	}
	return (isNilCompare(fn.Info(), a.E, errVar, token.EQL) && a.Pol) || (isNilCompare(fn.Info(), a.E, errVar, token.NEQ) && !a.Pol)
}

// okVarsFor: boolean variables whose truth implies the value is non-nil:
//
//	v, ok := m[k] / x.(T) / f() with a bool-correlated result; _, ok := m[k] for the path m[k].
func (c *p5) okVarsFor(fn *Func, e ast.Expr, obj types.Object, path string) []types.Object {
	info := fn.Info()
	var out []types.Object
	// a parameter handed the value of a comma-ok lookup together with that lookup's ok flag
	// (f(v, ok) after v, ok := m[k]): the flag parameter vouches for the value parameter, if
	// every in-module call site passes the pair that way
	if obj != nil && fn.isParam(obj) && fn.Obj != nil && len(fn.Assignments(obj)) == 0 {
		sig, _ := fn.Obj.Type().(*types.Signature)
		sites := c.callers[fn.Obj]
		if sig != nil && len(sites) > 0 {
			cand := map[int]int{}
			for _, cs := range sites {
				arg := actualFor(fn, obj, cs)
				aid, ok := ast.Unparen(arg).(*ast.Ident)
				if arg == nil || !ok {
					continue
				}
				cinfo := cs.fn.Info()
				ao := cinfo.ObjectOf(aid)
				for _, ov := range c.okVarsFor(cs.fn, aid, ao, cs.fn.Canon(aid)) {
					for q, qa := range cs.call.Args {
						if qid, ok := ast.Unparen(qa).(*ast.Ident); ok && cinfo.ObjectOf(qid) == ov && q < sig.Params().Len() {
							cand[q]++
						}
					}
				}
			}
			for q, n := range cand {
				if n == len(sites) && len(fn.Assignments(sig.Params().At(q))) == 0 {
					out = append(out, sig.Params().At(q))
				}
			}
			if len(out) > 0 {
				return out
			}
		}
	}
	if obj != nil {
		for _, a := range fn.Assignments(obj) {
			s, ok := a.(*ast.AssignStmt)
			if !ok || len(s.Rhs) != 1 || len(s.Lhs) < 2 {
				continue
			}
			last, ok := ast.Unparen(s.Lhs[len(s.Lhs)-1]).(*ast.Ident)
			if !ok || last.Name == "_" {
				continue
			}
			lo := info.ObjectOf(last)
			if lo == nil || lo.Type().String() != "bool" {
				continue
			}
			switch r := ast.Unparen(s.Rhs[0]).(type) {
			case *ast.IndexExpr, *ast.TypeAssertExpr:
				_ = r
				out = append(out, lo)
			case *ast.CallExpr:
				if f := calleeOf(info, r); f != nil {
					for i, l := range s.Lhs {
						if lid, ok := ast.Unparen(l).(*ast.Ident); ok && info.ObjectOf(lid) == obj {
							if c.nilWithFalse[f] != nil && c.nilWithFalse[f][i] {
								out = append(out, lo)
							}
						}
					}
				}
			}
		}
		return out
	}
	// path is a map lookup m[k]: _, ok := m[k] elsewhere in the function
	if _, isIdx := ast.Unparen(e).(*ast.IndexExpr); isIdx {
		ast.Inspect(fn.Body, func(n ast.Node) bool {
			s, ok := n.(*ast.AssignStmt)
			if !ok || len(s.Rhs) != 1 || len(s.Lhs) != 2 {
				return true
			}
			if ie, ok := ast.Unparen(s.Rhs[0]).(*ast.IndexExpr); ok && fn.Canon(ie) == path {
				if okid, ok := ast.Unparen(s.Lhs[1]).(*ast.Ident); ok && okid.Name != "_" {
					out = append(out, info.ObjectOf(okid))
				}
			}
			return true
		})
	}
	return out
}

func (c *p5) okAtom(fn *Func, a *Atom, ov types.Object) bool {
	if a.E == nil || ov == nil {
		return false
	}
	id, ok := ast.Unparen(a.E).(*ast.Ident)
	return ok && fn.Info().ObjectOf(id) == ov && a.Pol
}

// okStillBinds: neither the ok variable nor the value was re-assigned since the guard.
func (c *p5) okStillBinds(fn *Func, ov, obj types.Object, a *Atom, at ast.Node) bool {
	if a.Fact == nil {
		return true
	}
	if fn.ReassignedBetween(ov, *a.Fact, at) != nil {
		return false
	}
	if obj != nil && fn.ReassignedBetween(obj, *a.Fact, at) != nil {
		return false
	}
	return true
}

// helperImplies: atom is `ok` (true) where ok is the bool result of a helper call whose
// success implies that path is non-nil (derived from the helper's own CFG).
func (c *p5) helperImplies(fn *Func, a *Atom, path string) bool {
	if a.E == nil || !a.Pol {
		return false
	}
	info := fn.Info()
	id, ok := ast.Unparen(a.E).(*ast.Ident)
	if !ok {
		return false
	}
	ov := info.ObjectOf(id)
	if ov == nil {
		return false
	}
	for _, asn := range fn.Assignments(ov) {
		s, ok := asn.(*ast.AssignStmt)
		if !ok || len(s.Rhs) != 1 {
			continue
		}
		call, ok := ast.Unparen(s.Rhs[0]).(*ast.CallExpr)
		if !ok {
			continue
		}
		f := calleeOf(info, call)
		cf := c.p.FuncOf[f]
		if cf == nil {
			continue
		}
		for _, imp := range c.successImplies(cf) {
			if imp.param < len(call.Args) {
				if ap := fn.Canon(call.Args[imp.param]); ap != "" && ap+imp.suffix == path {
					return true
				}
			}
		}
	}
	return false
}

type implication struct {
	param  int
	suffix string
}

// successImplies: for a function whose last result is bool, the parameter field paths that
// are proven non-nil at every return whose bool result is not the literal false.
func (c *p5) successImplies(cf *Func) []implication {
	if v, ok := c.implCache[cf]; ok {
		return v
	}
	c.implCache[cf] = nil
	info := cf.Info()
	if cf.Type.Results == nil || cf.Type.Params == nil {
		return nil
	}
	// candidate paths: param.F compared with nil somewhere
	type cand struct {
		param  int
		suffix string
		expr   ast.Expr
	}
	var params []types.Object
	for _, f := range cf.Type.Params.List {
		for _, n := range f.Names {
			params = append(params, info.ObjectOf(n))
		}
	}
	var cands []cand
	seen := map[string]bool{}
	ast.Inspect(cf.Body, func(n ast.Node) bool {
		be, ok := n.(*ast.BinaryExpr)
		if !ok || (be.Op != token.EQL && be.Op != token.NEQ) {
			return true
		}
		var other ast.Expr
		if isNilIdent(info, be.Y) {
			other = be.X
		} else if isNilIdent(info, be.X) {
			other = be.Y
		}
		if other == nil {
			return true
		}
		bo := baseObj(info, other)
		for i, po := range params {
			if po == bo && len(cf.Assignments(po)) == 0 {
				full := cf.Canon(other)
				root := pathOf(info, &ast.Ident{Name: po.Name()})
				_ = root
				pp := cf.Canon(ast.NewIdent(po.Name()))
				_ = pp
				// suffix = path minus the parameter's own symbol
				ps := fmt.Sprintf("%s@%d", po.Name(), po.Pos())
				if strings.HasPrefix(full, ps) && !seen[full] {
					seen[full] = true
					cands = append(cands, cand{i, strings.TrimPrefix(full, ps), other})
				}
			}
		}
		return true
	})
	if len(cands) == 0 {
		return nil
	}
	var rets []*ast.ReturnStmt
	ast.Inspect(cf.Body, func(n ast.Node) bool {
		if _, ok := n.(*ast.FuncLit); ok {
			return false
		}
		if rs, ok := n.(*ast.ReturnStmt); ok {
			rets = append(rets, rs)
		}
		return true
	})
	var out []implication
	for _, cd := range cands {
		okAll, n := true, 0
		for _, rs := range rets {
			if len(rs.Results) == 0 {
				okAll = false
				continue
			}
			last := rs.Results[len(rs.Results)-1]
			if isFalse(last) {
				continue
			}
			n++
			path := cf.Canon(cd.expr)
			if !cf.GuardsAt(rs).Holds(func(a *Atom) bool { return c.nonNilAtom(cf, a, path, nil) }) {
				okAll = false
			}
		}
		if okAll && n > 0 {
			out = append(out, implication{cd.param, cd.suffix})
		}
	}
	c.implCache[cf] = out
	return out
}

type enumContract struct {
	valueIdx, enumIdx int
	consts            []string
}

// enumContracts: result valueIdx is non-nil whenever result enumIdx is one of consts.
// The premise is re-derived from the callee on every run (enumContractHolds).
var enumContracts = map[string]enumContract{
	"decoder/internal/schemahelper.blockSchema.DependentBodySchema": {0, 2, []string{"LookupSuccessful", "LookupPartiallySuccessful"}},
}

func enumAtom(fn *Func, a *Atom, ev types.Object, consts []string) bool {
	if ev == nil || a.E == nil {
		return false
	}
	be, ok := ast.Unparen(a.E).(*ast.BinaryExpr)
	if !ok || !((be.Op == token.EQL && a.Pol) || (be.Op == token.NEQ && !a.Pol)) {
		return false
	}
	info := fn.Info()
	isVar := func(e ast.Expr) bool {
		id, ok := ast.Unparen(e).(*ast.Ident)
		return ok && info.ObjectOf(id) == ev
	}
	constName := func(e ast.Expr) string {
		switch x := ast.Unparen(e).(type) {
		case *ast.Ident:
			if _, ok := info.ObjectOf(x).(*types.Const); ok {
				return x.Name
			}
		case *ast.SelectorExpr:
			if _, ok := info.ObjectOf(x.Sel).(*types.Const); ok {
				return x.Sel.Name
			}
		}
		return ""
	}
	var cn string
	if isVar(be.X) {
		cn = constName(be.Y)
	} else if isVar(be.Y) {
		cn = constName(be.X)
	}
	for _, k := range consts {
		if k == cn && cn != "" {
			return true
		}
	}
	return false
}

// enumContractHolds re-derives the contract from the callee: the enum result is a
// variable that is set to one of the success constants only under the comma-ok success of
// the map lookup (or after a recursive call's own success) that defines the returned
// value; returns of a literal nil carry a non-success constant.
func (c *p5) enumContractHolds(cf *Func, ct enumContract) bool {
	if v, ok := c.enumOK[cf]; ok {
		return v
	}
	c.enumOK[cf] = true // coinductive assumption for the recursive call inside the callee
	info := cf.Info()
	cf.CFG()
	isSuccess := func(e ast.Expr) bool {
		id, ok := ast.Unparen(e).(*ast.Ident)
		if !ok {
			return false
		}
		for _, k := range ct.consts {
			if id.Name == k {
				return true
			}
		}
		return false
	}
	good := true
	ast.Inspect(cf.Body, func(n ast.Node) bool {
		if _, ok := n.(*ast.FuncLit); ok {
			return false
		}
		rs, ok := n.(*ast.ReturnStmt)
		if !ok || len(rs.Results) <= ct.enumIdx {
			return true
		}
		val, en := rs.Results[ct.valueIdx], rs.Results[ct.enumIdx]
		if isSuccess(en) {
			// explicit success constant: the value must be proven non-nil here
			if !c.nonNilAt(cf, val, rs) {
				good = false
			}
			return true
		}
		if _, isConst := info.ObjectOf(identOf(en)).(*types.Const); isConst {
			return true // a non-success constant: no claim
		}
		// enum variable: every assignment of a success constant to it must be dominated by
		// a fact that makes the returned value non-nil
		ev := info.ObjectOf(identOf(en))
		if ev == nil {
			good = false
			return true
		}
		for _, a := range cf.Assignments(ev) {
			as, ok := a.(*ast.AssignStmt)
			if !ok || len(as.Lhs) != len(as.Rhs) {
				if vs, ok := a.(*ast.ValueSpec); ok {
					for _, v := range vs.Values {
						if isSuccess(v) {
							good = false
						}
					}
					continue
				}
				good = false
				continue
			}
			for i, l := range as.Lhs {
				if id, ok := ast.Unparen(l).(*ast.Ident); ok && info.ObjectOf(id) == ev && isSuccess(as.Rhs[i]) {
					// only assignments that can reach this return matter
					ba, br := cf.BlockOf(as), cf.BlockOf(rs)
					if ba == nil || br == nil {
						good = false
						continue
					}
					if ba != br && !cf.reachFrom([]*cfg.Block{ba}, nil)[br] {
						continue
					}
					if !c.nonNilAt(cf, val, as) {
						good = false
					}
				}
			}
		}
		return true
	})
	c.enumOK[cf] = good
	return good
}

func identOf(e ast.Expr) *ast.Ident {
	id, _ := ast.Unparen(e).(*ast.Ident)
	if id == nil {
		return &ast.Ident{Name: "_"}
	}
	return id
}

// nonNilAt: is expression e proven non-nil when control reaches node `at`?
func (c *p5) nonNilAt(fn *Func, e ast.Expr, at ast.Node) bool {
	ok, _ := c.nonNilWhy(fn, e, at, 0)
	return ok
}

func (c *p5) nonNilWhy(fn *Func, e ast.Expr, at ast.Node, depth int) (bool, string) {
	info := fn.Info()
	e = ast.Unparen(e)
	switch x := e.(type) {
	case *ast.UnaryExpr:
		if x.Op == token.AND {
			return true, "address-of"
		}
	case *ast.CompositeLit, *ast.FuncLit:
		return true, "literal"
	case *ast.CallExpr:
		if isBuiltinCall(info, x, "make") || isBuiltinCall(info, x, "new") {
			return true, "make/new"
		}
		if sel, ok := ast.Unparen(x.Fun).(*ast.SelectorExpr); ok && sel.Sel.Name == "Ptr" && len(x.Args) == 0 {
			return true, "Ptr() returns the address of a copy"
		}
		if tv, ok := info.Types[x.Fun]; ok && tv.IsType() && len(x.Args) == 1 {
			return c.nonNilWhy(fn, x.Args[0], at, depth)
		}
		if f := calleeOf(info, x); f != nil {
			// Copy() of a non-nil receiver is non-nil (E5 checks nil-on-nil only)
			if sel, ok := ast.Unparen(x.Fun).(*ast.SelectorExpr); ok && sel.Sel.Name == "Copy" && len(x.Args) == 0 {
				return c.nonNilWhy(fn, sel.X, at, depth)
			}
			if strings.HasPrefix(f.Pkg().Path(), modPath) {
				if m := c.mayNil[f]; m == nil || m[0] == "" {
					if c.p.FuncOf[f] != nil {
						return true, "result of " + funcName(f) + " (no nil return)"
					}
				}
				return false, ""
			}
			// third-party constructors returning pointers: unknown → treat as non-nil
			// only for the listed ones
			switch f.FullName() {
			case "context.Background", "context.WithValue":
				return true, "stdlib"
			}
		}
		return false, ""
	}
	if c.nullableReason(fn, e, depth) == "" {
		return true, "not optional"
	}
	path := fn.Canon(e)
	if path == "" {
		return false, ""
	}
	if c.pathNonNil(fn, e, path, at, depth) {
		return true, "guarded on every path"
	}
	return false, ""
}

// nullableReason: why might e be nil (considering variables' definitions)?
func (c *p5) nullableReason(fn *Func, e ast.Expr, depth int) string {
	info := fn.Info()
	e = ast.Unparen(e)
	if !isNilableType(typeOfSynth(info, e)) {
		return ""
	}
	if w := c.nullableExpr(fn, e); w != "" {
		return w
	}
	if id, ok := e.(*ast.Ident); ok {
		o := info.ObjectOf(id)
		v, isVar := o.(*types.Var)
		if !isVar || v.IsField() {
			return ""
		}
		if fn.isParam(o) {
			// a parameter is as optional as what an in-module caller hands it: an optional
			// reference passed on unchecked keeps its obligation inside the callee
			if depth > 1 || fn.Obj == nil || len(fn.Assignments(o)) != 0 {
				return ""
			}
			for _, cs := range c.callers[fn.Obj] {
				arg := actualFor(fn, o, cs)
				if arg == nil {
					continue
				}
				if w := c.nullableReason(cs.fn, arg, depth+2); w != "" {
					if ok, _ := c.nonNilWhy(cs.fn, arg, cs.call, 0); !ok {
						return "parameter " + o.Name() + ", which receives " + w + " at " + c.p.Pos(cs.call)
					}
				}
			}
			return ""
		}
		if depth > 3 {
			return ""
		}
		for _, a := range fn.Assignments(o) {
			switch s := a.(type) {
			case *ast.AssignStmt:
				if len(s.Rhs) == 1 && len(s.Lhs) == 2 {
					// v, ok := m[k] / x.(T) / f()
					if ie, isIdx := ast.Unparen(s.Rhs[0]).(*ast.IndexExpr); isIdx {
						if lid, ok := ast.Unparen(s.Lhs[0]).(*ast.Ident); ok && info.ObjectOf(lid) == o {
							if _, isMap := info.TypeOf(ie.X).Underlying().(*types.Map); isMap {
								return "comma-ok map lookup " + exprStr(ie)
							}
						}
					}
					if ta, isTA := ast.Unparen(s.Rhs[0]).(*ast.TypeAssertExpr); isTA {
						if lid, ok := ast.Unparen(s.Lhs[0]).(*ast.Ident); ok && info.ObjectOf(lid) == o {
							return "comma-ok type assertion " + exprStr(ta)
						}
					}
				}
				if len(s.Rhs) == 1 && len(s.Lhs) >= 2 {
					if call, isCall := ast.Unparen(s.Rhs[0]).(*ast.CallExpr); isCall {
						if f := calleeOf(info, call); f != nil {
							for i, l := range s.Lhs {
								if lid, ok := ast.Unparen(l).(*ast.Ident); ok && info.ObjectOf(lid) == o {
									if m := c.mayNil[f]; m != nil && m[i] != "" {
										return "result " + fmt.Sprint(i) + " of " + funcName(f) + ", which may be nil (" + m[i] + ")"
									}
									if c.p.FuncOf[f] == nil && pointerWithError(f, i) {
										return "result " + fmt.Sprint(i) + " of " + funcName(f) + ", a pointer returned next to an error by code outside the module (nil when the error is set)"
									}
								}
							}
						}
					}
				}
				if len(s.Lhs) == len(s.Rhs) {
					for i, l := range s.Lhs {
						if lid, ok := ast.Unparen(l).(*ast.Ident); ok && info.ObjectOf(lid) == o {
							if w := c.nullableReason(fn, s.Rhs[i], depth+1); w != "" {
								return w
							}
						}
					}
				}
			case *ast.ValueSpec:
				if len(s.Values) == 0 {
					return "declared without a value (nil)"
				}
				for i, nid := range s.Names {
					if info.ObjectOf(nid) == o && i < len(s.Values) {
						if w := c.nullableReason(fn, s.Values[i], depth+1); w != "" {
							return w
						}
					}
				}
			}
		}
	}
	return ""
}

// pathNonNil: every CFG path from a point where `path` may be nil (function entry for a
// field path; each maybe-nil assignment for a local) to `at` crosses an establishing edge
// or a re-assignment to a value proven non-nil.
func (c *p5) pathNonNil(fn *Func, e ast.Expr, path string, at ast.Node, depth int) bool {
	info := fn.Info()
	g := fn.CFG()
	ub := fn.BlockOf(at)
	if ub == nil {
		// inside a nested literal etc.
		return false
	}
	var obj types.Object
	if id, ok := ast.Unparen(e).(*ast.Ident); ok {
		obj = info.ObjectOf(id)
	}
	okVars := c.okVarsFor(fn, e, obj, path)
	// local short-circuit / dominating guards first
	if fn.GuardsAt(at).Holds(func(a *Atom) bool {
		hit := c.nonNilAtom(fn, a, path, nil) || c.helperImplies(fn, a, path)
		for _, ov := range okVars {
			if !hit && c.okAtom(fn, a, ov) && c.okStillBinds(fn, ov, obj, a, at) {
				hit = true
			}
		}
		if !hit {
			return false
		}
		var ge ast.Expr = a.E
		if ge == nil {
			ge = a.TypeX
		}
		ok, _ := fn.guardStillValid(a, ge, at)
		return ok
	}) {
		return true
	}
	// definitions
	type def struct {
		node       ast.Node
		block      *cfg.Block
		idx        int
		nonNil     bool
		okVar      types.Object
		errVar     types.Object
		enumVar    types.Object
		enumConsts []string
	}
	var defs []def
	nodeIndex := func(b *cfg.Block, n ast.Node) int {
		cn := fn.CFGNodeOf(n)
		for i, x := range b.Nodes {
			if x == cn {
				return i
			}
		}
		return -1
	}
	if obj != nil {
		for _, a := range fn.Assignments(obj) {
			b := fn.BlockOf(a)
			if b == nil {
				return false
			}
			d := def{node: a, block: b, idx: nodeIndex(b, a)}
			switch s := a.(type) {
			case *ast.AssignStmt:
				if len(s.Rhs) == 1 && len(s.Lhs) == 2 {
					if _, isIdx := ast.Unparen(s.Rhs[0]).(*ast.IndexExpr); isIdx {
						if okid, ok := ast.Unparen(s.Lhs[1]).(*ast.Ident); ok && okid.Name != "_" {
							d.okVar = info.ObjectOf(okid)
						}
					} else if _, isTA := ast.Unparen(s.Rhs[0]).(*ast.TypeAssertExpr); isTA {
						if okid, ok := ast.Unparen(s.Lhs[1]).(*ast.Ident); ok && okid.Name != "_" {
							d.okVar = info.ObjectOf(okid)
						}
					} else if call, isCall := ast.Unparen(s.Rhs[0]).(*ast.CallExpr); isCall {
						if f := calleeOf(info, call); f != nil {
							m := c.mayNil[f]
							if (m == nil || m[0] == "") && c.p.FuncOf[f] != nil {
								d.nonNil = true
							} else if (c.nilWithErr[f] != nil && c.nilWithErr[f][0]) || (c.p.FuncOf[f] == nil && pointerWithError(f, 0)) {
								if eid, ok := ast.Unparen(s.Lhs[1]).(*ast.Ident); ok && eid.Name != "_" {
									d.errVar = info.ObjectOf(eid)
								}
							}
						}
					}
				} else if len(s.Lhs) == len(s.Rhs) {
					for i, l := range s.Lhs {
						if lid, ok := ast.Unparen(l).(*ast.Ident); ok && info.ObjectOf(lid) == obj {
							if depth < 3 {
								d.nonNil, _ = c.nonNilWhy(fn, s.Rhs[i], s, depth+1)
							}
						}
					}
				} else if len(s.Rhs) == 1 {
					if call, isCall := ast.Unparen(s.Rhs[0]).(*ast.CallExpr); isCall {
						if f := calleeOf(info, call); f != nil && c.p.FuncOf[f] == nil {
							for i, l := range s.Lhs {
								if lid, ok := ast.Unparen(l).(*ast.Ident); ok && info.ObjectOf(lid) == obj && pointerWithError(f, i) {
									if eid, ok := ast.Unparen(s.Lhs[len(s.Lhs)-1]).(*ast.Ident); ok && eid.Name != "_" {
										d.errVar = info.ObjectOf(eid)
									}
								}
							}
						}
						if f := calleeOf(info, call); f != nil && c.p.FuncOf[f] != nil {
							for i, l := range s.Lhs {
								if lid, ok := ast.Unparen(l).(*ast.Ident); ok && info.ObjectOf(lid) == obj {
									if ct, ok := enumContracts[funcName(f)]; ok && ct.valueIdx == i && ct.enumIdx < len(s.Lhs) && c.enumContractHolds(c.p.FuncOf[f], ct) {
										if eid, ok := ast.Unparen(s.Lhs[ct.enumIdx]).(*ast.Ident); ok && eid.Name != "_" {
											d.enumVar = info.ObjectOf(eid)
											d.enumConsts = ct.consts
										}
									}
									if m := c.mayNil[f]; m == nil || m[i] == "" {
										d.nonNil = true
									} else if c.nilWithErr[f] != nil && c.nilWithErr[f][i] {
										if eid, ok := ast.Unparen(s.Lhs[len(s.Lhs)-1]).(*ast.Ident); ok && eid.Name != "_" {
											d.errVar = info.ObjectOf(eid)
										}
									} else if c.nilWithFalse[f] != nil && c.nilWithFalse[f][i] {
										if eid, ok := ast.Unparen(s.Lhs[len(s.Lhs)-1]).(*ast.Ident); ok && eid.Name != "_" {
											d.okVar = info.ObjectOf(eid)
										}
									}
								}
							}
						}
					}
				}
			case *ast.ValueSpec:
				for i, nid := range s.Names {
					if info.ObjectOf(nid) == obj && i < len(s.Values) && depth < 3 {
						d.nonNil, _ = c.nonNilWhy(fn, s.Values[i], s, depth+1)
					}
				}
			case *ast.RangeStmt:
				d.nonNil = true // elements of schema collections are assumed non-nil
				d.block = fn.BlockOf(s.X)
				d.idx = 1 << 20
			}
			defs = append(defs, d)
		}
	} else {
		// a field path: may be nil from function entry; assignments to the exact path
		// are definitions as well
		if len(g.Blocks) == 0 {
			return false
		}
		// v.F where v is a local struct variable built from a composite literal: the
		// literal is the first definition of the field
		litDef := false
		if sel, ok := ast.Unparen(e).(*ast.SelectorExpr); ok {
			if id, ok := ast.Unparen(sel.X).(*ast.Ident); ok {
				vo := info.ObjectOf(id)
				if vo != nil && !fn.isParam(vo) && len(fn.Assignments(vo)) == 1 {
					if dexp := fn.SingleDef(vo); dexp != nil {
						dd := ast.Unparen(dexp)
						if u, ok := dd.(*ast.UnaryExpr); ok && u.Op == token.AND {
							dd = ast.Unparen(u.X)
						}
						if cl, ok := dd.(*ast.CompositeLit); ok {
							as0 := fn.Assignments(vo)[0]
							b := fn.BlockOf(as0)
							if b != nil {
								nn := false
								for _, el := range cl.Elts {
									if kv, ok := el.(*ast.KeyValueExpr); ok {
										if k, ok := kv.Key.(*ast.Ident); ok && k.Name == sel.Sel.Name && depth < 3 {
											nn, _ = c.nonNilWhy(fn, kv.Value, as0, depth+1)
										}
									}
								}
								defs = append(defs, def{node: as0, block: b, idx: nodeIndex(b, as0), nonNil: nn})
								litDef = true
							}
						}
					}
				}
			}
		}
		if !litDef {
			defs = append(defs, def{node: nil, block: g.Blocks[0], idx: -1})
		}
		ast.Inspect(fn.Body, func(n ast.Node) bool {
			as, ok := n.(*ast.AssignStmt)
			if !ok || len(as.Lhs) != len(as.Rhs) {
				return true
			}
			for i, l := range as.Lhs {
				if fn.Canon(l) == path {
					b := fn.BlockOf(as)
					if b != nil {
						nn := false
						if depth < 3 {
							nn, _ = c.nonNilWhy(fn, as.Rhs[i], as, depth+1)
						}
						defs = append(defs, def{node: as, block: b, idx: nodeIndex(b, as), nonNil: nn})
					}
				}
			}
			return true
		})
	}
	if len(defs) == 0 {
		return false
	}
	// barrier positions: all definitions
	isDefAt := func(b *cfg.Block, i int) *def {
		for k := range defs {
			if defs[k].block == b && defs[k].idx == i {
				return &defs[k]
			}
		}
		return nil
	}
	useIdx := nodeIndex(ub, at)
	for _, d := range defs {
		if d.nonNil {
			continue
		}
		// forward search from just after d; stop at other defs; do not cross
		// establishing edges; reaching the use is a failure
		type pos struct {
			b *cfg.Block
			i int
		}
		seen := map[*cfg.Block]bool{}
		var reach func(b *cfg.Block, from int) bool
		reach = func(b *cfg.Block, from int) bool {
			for i := from; i < len(b.Nodes); i++ {
				if b == ub && i == useIdx {
					return true
				}
				if od := isDefAt(b, i); od != nil && od.node != d.node {
					return false // re-defined: judged separately
				}
			}
			if b == ub && useIdx < 0 {
				return true
			}
			for k, s := range b.Succs {
				// establishing edge?
				if len(b.Succs) == 2 && len(b.Nodes) > 0 {
					if _, ok := b.Nodes[len(b.Nodes)-1].(ast.Expr); ok {
						if f := fn.edgeCondFormula(b, k); f != nil {
							if f.Holds(func(a *Atom) bool {
								if c.nonNilAtom(fn, a, path, d.okVar) || c.errNilAtom(fn, a, d.errVar) || c.helperImplies(fn, a, path) || enumAtom(fn, a, d.enumVar, d.enumConsts) {
									return true
								}
								if obj == nil {
									for _, ov := range okVars {
										if c.okAtom(fn, a, ov) {
											return true
										}
									}
								}
								return false
							}) {
								continue
							}
						}
					}
				}
				if k == 1 && b.Kind == cfg.KindRangeLoop && obj != nil && c.rangeRedefinesOnEveryIteration(fn, b, obj, d.node) {
					// the loop runs at least once and every complete iteration re-defines the
					// variable: this definition does not survive the loop
					continue
				}
				if seen[s] {
					continue
				}
				seen[s] = true
				if reach(s, 0) {
					return true
				}
			}
			return false
		}
		start := d.idx + 1
		if d.idx >= 1<<20 {
			continue
		}
		if reach(d.block, start) {
			return false
		}
	}
	return true
}

// main ------------------------------------------------------------------------------------

func runP5(p *Prog, r *Report) {
	c := &p5{p: p, r: r, callers: buildCallers(p), enumOK: map[*Func]bool{}, implCache: map[*Func][]implication{}, nilWithFalse: map[*types.Func]map[int]bool{}, nilWithErr: map[*types.Func]map[int]bool{}, mayNil: map[*types.Func]map[int]string{}, tolerant: map[*types.Func]bool{}, tolDone: map[*types.Func]bool{}}
	c.computeSummaries()
	for _, fn := range p.Funcs {
		info := fn.Info()
		fn.CFG()
		ast.Inspect(fn.Body, func(n ast.Node) bool {
			if lit, ok := n.(*ast.FuncLit); ok && lit != fn.Lit {
				return false
			}
			var base ast.Expr
			kind := ""
			switch x := n.(type) {
			case *ast.SelectorExpr:
				s, ok := info.Selections[x]
				if !ok {
					return true
				}
				bt := info.TypeOf(x.X)
				if bt == nil {
					return true
				}
				switch s.Kind() {
				case types.FieldVal:
					if _, isPtr := bt.Underlying().(*types.Pointer); isPtr {
						base, kind = x.X, "field "+x.Sel.Name
					}
				case types.MethodVal:
					if _, isIface := bt.Underlying().(*types.Interface); isIface {
						base, kind = x.X, "method "+x.Sel.Name+" on interface"
					} else if _, isPtr := bt.Underlying().(*types.Pointer); isPtr {
						f, _ := s.Obj().(*types.Func)
						if f != nil {
							sig := f.Type().(*types.Signature)
							if _, ptrRecv := sig.Recv().Type().(*types.Pointer); !ptrRecv {
								base, kind = x.X, "value-receiver method "+x.Sel.Name
							} else if strings.HasPrefix(f.Pkg().Path(), modPath) && !c.receiverTolerant(f) {
								base, kind = x.X, "method "+x.Sel.Name+" (dereferences its receiver unguarded)"
							} else if !strings.HasPrefix(f.Pkg().Path(), modPath) {
								if f.FullName() != "(*github.com/hashicorp/go-multierror.Error).ErrorOrNil" { // documented nil-safe
									base, kind = x.X, "method "+x.Sel.Name
								}
							}
						}
					}
				}
			case *ast.StarExpr:
				if tv, ok := info.Types[x]; ok && !tv.IsType() {
					base, kind = x.X, "pointer dereference"
				}
			case *ast.AssignStmt:
				for _, l := range x.Lhs {
					if ie, ok := ast.Unparen(l).(*ast.IndexExpr); ok {
						if t := info.TypeOf(ie.X); t != nil {
							if _, isMap := t.Underlying().(*types.Map); isMap {
								c.judge(fn, ie.X, ie, "store into map")
							}
						}
					}
				}
				return true
			}
			if base == nil {
				return true
			}
			c.judge(fn, base, n, kind)
			return true
		})
	}
	r.ExpectMin("E4.P5-deref-sites-examined", c.nSites, 1500)
	r.ExpectMin("E4.P5-optional-derefs", c.nNullable, 60)
	r.Clauses = append(r.Clauses, "E4.P5 every dereference (field access, method call, pointer dereference, map store) of an optional reference — a field the schema API documents as optional, a single-value or comma-ok map lookup, a result of a function that may return nil — is reached only through an edge that establishes it non-nil or a re-assignment to a non-nil value, on every CFG path")
	r.Assume("values stored in schema maps and slices (Attributes, Blocks, Labels, DependentBody, Functions) are non-nil; pathCtx.Files holds an entry for the filename of every range produced from a file of that path")
}

func (c *p5) judge(fn *Func, base ast.Expr, at ast.Node, kind string) {
	c.nSites++
	why := c.nullableReason(fn, base, 0)
	if why == "" {
		return
	}
	c.nNullable++
	p := c.p
	construct := exprStr(base) + " → " + kind
	if ex, ok := c.exception(fn, base, at); ok {
		c.r.Add("E4.P5-optional-deref", fn.Name, construct, p.Pos(at), Excepted, ex, true)
		return
	}
	path := fn.Canon(base)
	if path == "" {
		// not a path (e.g. m[k].F or f().F): needs a guard we cannot attach → violation
		c.r.Add("E4.P5-optional-deref", fn.Name, construct, p.Pos(at), Violated, "dereference of "+why+" without a nil check", true)
		return
	}
	if c.pathNonNil(fn, base, path, at, 0) {
		c.r.Add("E4.P5-optional-deref", fn.Name, construct, p.Pos(at), OK, "non-nil on every path ("+why+")", true)
		return
	}
	if ok, how := c.callersEstablish(fn, base, 0); ok {
		c.r.Add("E4.P5-optional-deref", fn.Name, construct, p.Pos(at), OK, how+" ("+why+")", true)
		return
	}
	c.r.Add("E4.P5-optional-deref", fn.Name, construct, p.Pos(at), Violated, "may be nil here: "+why+"; no nil check or non-nil re-assignment on some path to this dereference", true)
}

// callersEstablish: base is a path rooted at an unassigned parameter (or receiver); every
// in-module call site proves the corresponding argument path non-nil.
func (c *p5) callersEstablish(fn *Func, base ast.Expr, depth int) (bool, string) {
	info := fn.Info()
	bo := baseObj(info, base)
	if bo == nil || !fn.isParam(bo) || len(fn.Assignments(bo)) != 0 || fn.Obj == nil || depth > 1 {
		return false, ""
	}
	sites := c.callers[fn.Obj]
	if len(sites) == 0 {
		return false, ""
	}
	for _, cs := range sites {
		arg := actualFor(fn, bo, cs)
		if arg == nil {
			return false, ""
		}
		e2 := substBase(base, bo, arg, info)
		ok, _ := c.nonNilWhy(cs.fn, e2, cs.call, 0)
		if !ok {
			if ok2, _ := c.callersEstablish(cs.fn, e2, depth+1); !ok2 {
				return false, ""
			}
		}
	}
	return true, fmt.Sprintf("precondition: non-nil at all %d in-module call sites", len(sites))
}

// exception idioms (each a named shape with a reason)
func (c *p5) exception(fn *Func, base ast.Expr, at ast.Node) (string, bool) {
	info := fn.Info()
	// pathCtx.Files[<range>.Filename].Bytes
	if id, ok := ast.Unparen(base).(*ast.Ident); ok {
		if def := fn.SingleDef(info.ObjectOf(id)); def != nil {
			base = def
		}
	}
	if ex, ok := p5Exceptions[fn.Name+"|"+exprStr(base)]; ok {
		return ex, true
	}
	if ie, ok := ast.Unparen(base).(*ast.IndexExpr); ok {
		if sel, ok := ast.Unparen(ie.X).(*ast.SelectorExpr); ok && sel.Sel.Name == "Files" {
			if typeIs(info.TypeOf(sel.X), "hcl-lang/decoder", "PathContext") {
				idx := ast.Unparen(ie.Index)
				// the key kept in a single-definition local (`filename := rng.Filename`)
				for hop := 0; hop < 3; hop++ {
					kid, isId := idx.(*ast.Ident)
					if !isId {
						break
					}
					def := fn.SingleDef(info.ObjectOf(kid))
					if def == nil {
						break
					}
					idx = ast.Unparen(def)
				}
				if ks, ok := idx.(*ast.SelectorExpr); ok && ks.Sel.Name == "Filename" {
					if typeIs(info.TypeOf(ks.X), "hcl/v2", "Range") {
						return "files are stored in PathContext.Files under the filename they were parsed with; the key is the filename of a range of a node of such a file (stated assumption)", true
					}
				}
			}
		}
	}
	return "", false
}

// p5Exceptions: reviewed, keyed function|expression.
var p5Exceptions = map[string]string{
	"decoder/internal/schemahelper.buildDynamicBlockSchema|sourceSchema.Blocks[blockName]": "both callers pass a source schema whose Blocks contain every key of the input schema's Blocks (MergeBlockBodySchemas copies the dependent blocks into the merged schema just before, or passes the same schema twice)",
}

// rangeRedefinesOnEveryIteration: head is the head block of `for … := range S`. True when
//   - S is provably non-empty at the loop (a dominating len(S) == 0 / len(S) < 1 test left the
//     function, or len(S) > 0 / != 0 holds), S being a variable nobody re-assigns in between,
//   - the definition `def` of obj lies outside the loop, and
//   - every path through the body from its entry back to the head crosses an assignment to obj
//     (paths that leave the function or break out of the loop are judged on their own edges).
//
// Then the exit edge of the head is never taken with def's value still in obj.
func (c *p5) rangeRedefinesOnEveryIteration(fn *Func, head *cfg.Block, obj types.Object, def ast.Node) bool {
	rs, ok := head.Stmt.(*ast.RangeStmt)
	if !ok || len(head.Succs) != 2 {
		return false
	}
	info := fn.Info()
	if def != nil && def.Pos() >= rs.Body.Pos() && def.End() <= rs.Body.End() {
		return false
	}
	sid, ok := ast.Unparen(rs.X).(*ast.Ident)
	if !ok {
		return false
	}
	so := info.ObjectOf(sid)
	switch info.TypeOf(rs.X).Underlying().(type) {
	case *types.Slice, *types.Map:
	default:
		return false
	}
	nonEmpty := fn.GuardsAt(rs.X).Holds(func(a *Atom) bool {
		be, ok := ast.Unparen(a.E).(*ast.BinaryExpr)
		if !ok || a.E == nil {
			return false
		}
		call, ok := ast.Unparen(be.X).(*ast.CallExpr)
		if !ok || !isBuiltinCall(info, call, "len") || len(call.Args) != 1 {
			return false
		}
		if id, ok := ast.Unparen(call.Args[0]).(*ast.Ident); !ok || info.ObjectOf(id) != so {
			return false
		}
		tv, ok := info.Types[be.Y]
		if !ok || tv.Value == nil {
			return false
		}
		v := tv.Value.ExactString()
		hit := false
		switch {
		case be.Op == token.EQL && v == "0", be.Op == token.LSS && v == "1", be.Op == token.LEQ && v == "0":
			hit = !a.Pol
		case be.Op == token.NEQ && v == "0", be.Op == token.GTR && v == "0", be.Op == token.GEQ && v == "1":
			hit = a.Pol
		}
		if !hit {
			return false
		}
		ok2, _ := fn.guardStillValid(a, a.E, rs.X)
		return ok2
	})
	if !nonEmpty {
		return false
	}
	// every path body → head crosses an assignment to obj
	assigns := map[*cfg.Block]bool{}
	for _, a := range fn.Assignments(obj) {
		if a.Pos() >= rs.Body.Pos() && a.End() <= rs.Body.End() {
			if b := fn.BlockOf(a); b != nil {
				if _, isRange := a.(*ast.RangeStmt); !isRange {
					assigns[b] = true
				}
			}
		}
	}
	if len(assigns) == 0 {
		return false
	}
	seen := map[*cfg.Block]bool{}
	var back func(b *cfg.Block) bool // true: the head is reachable from b without an assignment
	back = func(b *cfg.Block) bool {
		if b == head {
			return true
		}
		if seen[b] || assigns[b] {
			return false
		}
		seen[b] = true
		for _, s := range b.Succs {
			if back(s) {
				return true
			}
		}
		return false
	}
	return !back(head.Succs[0])
}

// pointerWithError: f (an interface method or a function outside the module: no body to
// summarise) returns a pointer at result i and an error as its last result — by the Go
// convention the pointer is nil when the error is set.
func pointerWithError(f *types.Func, i int) bool {
	sig, ok := f.Type().(*types.Signature)
	if !ok || sig.Results().Len() < 2 || i >= sig.Results().Len()-1 {
		return false
	}
	last := sig.Results().At(sig.Results().Len() - 1).Type()
	if n, ok := last.(*types.Named); !ok || n.Obj().Name() != "error" || n.Obj().Pkg() != nil {
		return false
	}
	_, isPtr := sig.Results().At(i).Type().Underlying().(*types.Pointer)
	return isPtr
}
