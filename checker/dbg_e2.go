package main

import (
	"fmt"
	"go/ast"
	"go/types"
)

func dbgMapRanges(p *Prog) {
	n := 0
	for _, fn := range p.Funcs {
		info := fn.Info()
		ast.Inspect(fn.Body, func(x ast.Node) bool {
			if lit, ok := x.(*ast.FuncLit); ok && lit != fn.Lit {
				return false
			}
			rs, ok := x.(*ast.RangeStmt)
			if !ok {
				return true
			}
			if _, ok := info.TypeOf(rs.X).Underlying().(*types.Map); !ok {
				return true
			}
			n++
			fmt.Printf("%s %s range %s\n", p.Pos(rs), fn.Name, exprStr(rs.X))
			return true
		})
	}
	fmt.Println(n)
}
