#!/usr/bin/env python3
"""Dev tool: apply one literal replacement to a scratch copy of /repo and run the checker on it.
usage: mut.py PROP[,PROP] FILE OLD NEW [--count N]      (OLD must occur exactly once unless --count)
       mut.py PROP --patch file.diff
Prints checker output; scratch copy is removed afterwards."""
import sys, os, subprocess, shutil, tempfile
ENV = dict(os.environ, GOFLAGS="-mod=mod", GOPROXY="off", GOSUMDB="off", GOTOOLCHAIN="local")
sys.path.insert(0, os.path.dirname(os.path.abspath(__file__)))
from scratch import scratch_gocache
ENV["GOCACHE"] = scratch_gocache(ENV)
ENV.pop("GOWORK", None)
def scratch():
    d = tempfile.mkdtemp(prefix="hv-scratch-")
    subprocess.check_call(["rsync", "-a", "--exclude", ".git", "/repo/", d + "/"])
    return d
def run(props, d, build=True):
    rc_all = 0
    if build:
        r = subprocess.run(["go", "build", "./..."], cwd=d, env=ENV, capture_output=True, text=True)
        if r.returncode != 0:
            print("DOES NOT COMPILE:\n" + r.stdout + r.stderr); return 3
    for p in props.split(","):
        r = subprocess.run(["/verif/bin/hclverif", "-property", p, "-repo", d, "-no-evidence"], capture_output=True, text=True, env=ENV)
        out = r.stdout.replace(d + "/", "")
        print(out.strip()); rc_all |= r.returncode
    return rc_all
def main():
    a = sys.argv[1:]
    props = a[0]
    d = scratch()
    try:
        if a[1] == "--patch":
            subprocess.check_call(["git", "apply", "--unsafe-paths", "--directory", d, a[2]]) if False else subprocess.check_call(["patch", "-p1", "-s", "-d", d, "-i", os.path.abspath(a[2])])
        else:
            f, old, new = a[2 - 1 + 0], a[2], a[3]
            path = os.path.join(d, a[1])
            s = open(path).read()
            n = s.count(old)
            want = 1
            if "--count" in a: want = int(a[a.index("--count") + 1])
            if n != want:
                print(f"OLD occurs {n} times (want {want})"); return 2
            open(path, "w").write(s.replace(old, new))
        return run(props, d)
    finally:
        shutil.rmtree(d, ignore_errors=True)
        subprocess.run(["go", "clean", "-cache"], env=ENV, capture_output=True) if False else None
sys.exit(main())
