#!/bin/bash
# usage: confirm_seed.sh <seed-dir> <pkgdir-for-demo> [extra go test flags]
# Confirms a seeded change in a scratch worktree of /repo HEAD: demo passes without the
# patch, fails with it; the full suite passes with it. Removes the worktree afterwards.
set -u
SEED=$1; PKG=$2; shift 2; EXTRA="$*"
export GOFLAGS=-mod=mod GOPROXY=off GOSUMDB=off GOTOOLCHAIN=local; unset GOWORK
WT=$(mktemp -d /tmp/confirm-XXXX); rmdir $WT
git -C /repo worktree add -q --detach $WT HEAD || exit 9
# throw-away build cache (test binaries of scratch worktrees are never trimmed otherwise)
REALCACHE=$(go env GOCACHE); SCRATCHCACHE=$(mktemp -d /tmp/confirm-gocache-XXXX)
if [ -d "$REALCACHE" ] && [ "$(du -sm "$REALCACHE" | cut -f1)" -lt 1024 ]; then rsync -a "$REALCACHE/" "$SCRATCHCACHE/"; fi
export GOCACHE=$SCRATCHCACHE
cleanup() { git -C /repo worktree remove --force $WT 2>/dev/null; rm -rf $WT $SCRATCHCACHE; }
trap cleanup EXIT
cp $SEED/demo_test.go $WT/$PKG/zz_seed_demo_test.go
cd $WT
go test -vet=off -count=1 $EXTRA ./$PKG/ >/tmp/confirm_base.log 2>&1; BASE=$?
git apply $SEED/patch.diff || { echo "PATCH DOES NOT APPLY"; exit 8; }
go build ./... >/tmp/confirm_build.log 2>&1 || { echo "DOES NOT BUILD"; exit 7; }
go test -vet=off -count=1 $EXTRA ./$PKG/ >/tmp/confirm_mut.log 2>&1; MUT=$?
rm $WT/$PKG/zz_seed_demo_test.go
go test -vet=off -count=1 ./... >/tmp/confirm_suite.log 2>&1; SUITE=$?
echo "demo-without-patch exit=$BASE (want 0); demo-with-patch exit=$MUT (want !=0); suite-with-patch exit=$SUITE (want 0)"
[ $BASE -eq 0 ] && [ $MUT -ne 0 ] && [ $SUITE -eq 0 ] && echo CONFIRMED || echo NOT-CONFIRMED
