#!/usr/bin/env python3
"""seed_matrix.py [--jobs N] [--json out.json] [SEED...]
Runs every kept seeded change (/verif/seeded/<P>-mN/patch.diff) against the quick check of its
property on a scratch copy of /repo (never /repo itself) and prints which rules fire.
The scratch copies live under a fresh temp dir and are removed afterwards.
Exit status 0 always (this is a self-validation report, not a property check)."""
import sys, os, subprocess, shutil, tempfile, json, re
from concurrent.futures import ThreadPoolExecutor
ENV = dict(os.environ, GOFLAGS="-mod=mod", GOPROXY="off", GOSUMDB="off", GOTOOLCHAIN="local")
sys.path.insert(0, os.path.dirname(os.path.abspath(__file__)))
from scratch import scratch_gocache
ENV["GOCACHE"] = scratch_gocache(ENV)
ENV.pop("GOWORK", None)
SEEDED = "/verif/seeded"

def one(seed):
    prop = seed.split("-")[0]
    d = tempfile.mkdtemp(prefix="hv-seed-")
    try:
        subprocess.check_call(["rsync", "-a", "--exclude", ".git", "/repo/", d + "/"])
        r = subprocess.run(["patch", "-p1", "-s", "-d", d, "-i", f"{SEEDED}/{seed}/patch.diff"], capture_output=True, text=True)
        if r.returncode != 0:
            return seed, "PATCH-DOES-NOT-APPLY", []
        r = subprocess.run(["go", "build", "./..."], cwd=d, env=ENV, capture_output=True, text=True)
        if r.returncode != 0:
            return seed, "DOES-NOT-COMPILE", []
        r = subprocess.run(["/tmp/hclverif-new", "-property", prop, "-repo", d, "-no-evidence"], capture_output=True, text=True, env=ENV)
        rules = sorted(set(re.findall(r"\[violated\] ([A-Za-z0-9.\-]+)\|", r.stdout)))
        nv = len(re.findall(r"^VIOLATION ", r.stdout, re.M))
        return seed, ("CAUGHT" if nv > 0 and r.returncode == 1 else "MISSED"), rules
    finally:
        shutil.rmtree(d, ignore_errors=True)

def main():
    a = sys.argv[1:]
    jobs = 8
    out = None
    if "--jobs" in a:
        i = a.index("--jobs"); jobs = int(a[i + 1]); del a[i:i + 2]
    if "--json" in a:
        i = a.index("--json"); out = a[i + 1]; del a[i:i + 2]
    seeds = a or sorted(s for s in os.listdir(SEEDED) if os.path.exists(f"{SEEDED}/{s}/patch.diff"))
    res = []
    with ThreadPoolExecutor(jobs) as ex:
        for seed, st, rules in ex.map(one, seeds):
            print(f"{seed:8s} {st:8s} {', '.join(rules)}")
            res.append({"seed": seed, "status": st, "rules": rules})
    c = sum(1 for r in res if r["status"] == "CAUGHT")
    print(f"{c}/{len(res)} seeded changes reported")
    if out:
        json.dump(res, open(out, "w"), indent=1)

main()
