#!/usr/bin/env python3
"""keep_seed.py PROP mN PKGDIR "needs" "caught_by"  — copy a confirmed seed into /verif/seeded/PROP-mN/ with meta.json"""
import sys, os, shutil, json, subprocess
prop, m, pkg, needs, caught = sys.argv[1:6]
src = f"/tmp/seed-out/{prop}/{m}"
dst = f"/verif/seeded/{prop}-{m}"
os.makedirs(dst, exist_ok=True)
for f in ("patch.diff", "demo_test.go", "README.md"):
    if os.path.exists(f"{src}/{f}"): shutil.copy(f"{src}/{f}", f"{dst}/{f}")
head = subprocess.check_output(["git", "-C", "/repo", "rev-parse", "--short", "HEAD"], text=True).strip()
json.dump({"property": prop, "breaks": open(f"{src}/README.md").read().split("\n")[0][:200], "needs_to_manifest": needs,
           "demo_package_dir": pkg, "confirmed_against_repo_commit": head,
           "what_i_ran": f"tools/confirm_seed.sh {src} {pkg}: demo passes on HEAD, fails with patch; full suite passes with patch; then tools/mut.py {prop} --patch patch.diff",
           "caught_by": caught}, open(f"{dst}/meta.json", "w"), indent=1)
print("kept", dst)
