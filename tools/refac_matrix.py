#!/usr/bin/env python3
"""refac_matrix.py DIR...  — each DIR holds patch.diff of a behaviour-preserving change.
Applies it to a scratch copy of /repo and runs ALL 20 quick checks; any VIOLATION is a false
alarm of the checker. Prints per change the properties/rules that fired."""
import sys, os, subprocess, shutil, tempfile, re
from concurrent.futures import ThreadPoolExecutor
ENV = dict(os.environ, GOFLAGS="-mod=mod", GOPROXY="off", GOSUMDB="off", GOTOOLCHAIN="local"); ENV.pop("GOWORK", None)
sys.path.insert(0, os.path.dirname(os.path.abspath(__file__)))
from scratch import scratch_gocache
ENV["GOCACHE"] = scratch_gocache(ENV)
PROPS = ["C%02d" % i for i in range(1, 21)]
def one(d):
    t = tempfile.mkdtemp(prefix="hv-refac-")
    try:
        subprocess.check_call(["rsync", "-a", "--exclude", ".git", "/repo/", t + "/"])
        r = subprocess.run(["patch", "-p1", "-s", "-d", t, "-i", os.path.join(d, "patch.diff")], capture_output=True, text=True)
        if r.returncode != 0: return d, "PATCH-DOES-NOT-APPLY", []
        r = subprocess.run(["go", "build", "./..."], cwd=t, env=ENV, capture_output=True, text=True)
        if r.returncode != 0: return d, "DOES-NOT-COMPILE", []
        fired = []
        for p in PROPS:
            r = subprocess.run(["/verif/bin/hclverif", "-property", p, "-repo", t, "-no-evidence"], capture_output=True, text=True, env=ENV)
            for m in re.finditer(r"\[(violated|undecided)\] ([^\s]+?)\|([^|]*)\|([^\n—]*)", r.stdout):
                fired.append(f"{p}:{m.group(2)}|{m.group(3).split('.')[-1]}|{m.group(4).strip()[:60]}")
            if "ANALYSIS FAILURE" in r.stdout: fired.append(f"{p}:ANALYSIS-FAILURE")
        return d, ("SILENT" if not fired else "ALARM"), sorted(set(fired))
    finally:
        shutil.rmtree(t, ignore_errors=True)
dirs = sys.argv[1:] or sorted(os.path.join("/verif/benign", d) for d in os.listdir("/verif/benign"))
with ThreadPoolExecutor(6) as ex:
    for d, st, fired in ex.map(one, dirs):
        print(f"{d:28s} {st}")
        for f in fired: print("      ", f)
