#!/usr/bin/env python3
"""Regenerates /verif/MANIFEST.json from the per-property table below and validates it."""
import json, sys, os
ENV = "GOFLAGS=-mod=mod GOPROXY=off GOSUMDB=off GOTOOLCHAIN=local GOWORK=off"
CLAIMS = {
 "C17": dict(
   technique="static analysis: go/types field enumeration + go/cfg dominance over every Copy method (coverage, aliasing, nil/index safety)",
   text="Structural necessary conditions of C17 decided statically for every Copy method of schema/lang: every struct field (present and future, from go/types) is assigned in the result; no map/slice/pointer field nor container element is the receiver's own storage; receivers are nil-guarded; element stores are index-safe. Decides the mechanism, not value-level equality.",
   note="Trusts go/types+go/cfg; immutability of constraints, addresses, cty values is taken from the property statement; nil-vs-empty equality not decided.",
   ref="DESIGN.md §2 E5, §3 C17"),
 "C03": dict(
   technique="static analysis: map-iteration-order taint with inter-procedural 'unordered result' summaries to a fixed point (go/cfg paths to sort calls), strict-weak-order decision of every comparator by finite abstraction, who-may-call rules for nondeterminism sources and post-init state",
   text="Structural necessary conditions of C03 decided statically: every range over a Go map (59 sites) is classified; every slice filled in map order crosses a sort on every CFG path before a public API returns it or it is embedded in a result (internal collectors move the obligation to all callers); every comparator (3 Less methods, 8 sort closures) is proved a strict weak order by enumerating all weak orderings of three abstract elements per key; no ambient nondeterminism source is called; no package-level or decoder-level state is written after construction.",
   note="Does not decide tie-freedom of sort keys on real data, nor the cross-type order of JSON blocks returned by hcl; trusts go/types+go/cfg, the stated hclsyntax disjoint-range assumption for first-match returns, and that third-party callees are deterministic.",
   ref="DESIGN.md §2 E2, §3 C03"),
 "C01": dict(
   technique="static analysis: guard-completeness of five panic families over every function (go/cfg dominance + path search, alias-aware access paths, Fourier-Motzkin bounds prover, inter-procedural preconditions and summaries)",
   text="Structural necessary conditions of the no-panic clause of C01, decided for every function of the module: P1 every panicking cty.Value/cty.Type accessor is dominated by a kind guard (plus non-null and known guards for configuration-evaluated values); P2/P3 every index and slice expression is proved in bounds by a linear-arithmetic prover over dominating facts, loop facts, local definitions and stated parser/cursor axioms; P4 every single-value type assertion has a dominating type test or a re-checked pairing premise (walker/validator kind pairing, no typed nil); P5 every dereference of an optional reference is reached only through a non-nil-establishing edge on every CFG path. Unproved uses of parameters become preconditions discharged at all in-module call sites.",
   note="Does not decide: termination (recursion measures, loop progress), integer overflow, panics inside hcl/cty beyond the modelled accessor contracts, stack depth, user hooks/validators. Assumes schema-owned cty values are known and non-null, schema collections hold no nil entries, parser ranges lie within the file, cursor within file (entry check).",
   ref="DESIGN.md §2 E4, §3 C01"),
 "C04": dict(
   technique="static analysis: ownership/freshness classification of every write site (immutable < deep-fresh < fresh < shared) with parameter-symbolic summaries (writes-through, result-as-fresh-as-argument, per-field results) to a fixed point over the module; who-may-call rules for package- and decoder-level state",
   text="Structural necessary condition of C04 decided for every write in the module (≈455 sites: stores through pointers/maps/slices, appends into existing backing arrays, delete, copy, in-place sorts): the written memory is allocated in the current call tree (fresh), and writes below the first pointer hop require a deep-fresh root (a deep Copy result, make/new, literals of such, not demoted by stored shared pointers). Writes through parameters become summaries re-judged at every call site; any path from a public API entry point with caller-owned data to such a write is reported at the originating write. Also: append results bound to another variable (aliasing slices), package-level and decoder-level state writes.",
   note="Flow-insensitive per variable (joins over all assignments); third-party callees assumed read-only on arguments except sort/append/copy; constraints/defaults/cty values immutable by contract; addresses may be shared by copies but writes through them are judged; user hooks/validators out of scope.",
   ref="DESIGN.md §2 E3, §3 C04"),
 "C05": dict(
   technique="static analysis: same ownership engine as C04 (no write to pre-existing or package-level memory ⇒ all memory shared between concurrent queries is read-only) plus goroutine/select/global-state who-may-call rules",
   text="Data-race freedom of concurrent queries follows structurally if no instruction reachable from a query writes memory that existed before the query or package-level memory: then every location shared between two queries is read-only and every written location is confined to one goroutine. The check decides exactly that (engine E3 over every write site, global/decoder state rules), and that no goroutine is spawned and no select is used. Equality with the sequential result is then C03's determinism clause (checked under C03).",
   note="Races inside hcl/cty on shared AST nodes are assumed absent (read-only accessors); user callbacks out of scope; the memory-model argument is stated in DESIGN.md, not mechanised.",
   ref="DESIGN.md §2 E3, §3 C05"),
 "C06": dict(
   technique="static analysis: typestate of the IsComplete flag along CFG paths from limit/hook tests, counter-discipline check of the candidate limit, placeholder threading by data-derivation and linear arithmetic on tab-stop numbers, NewText/Snippet separation by data-derivation",
   text="Structural necessary conditions of C06 decided statically: (a) after a candidate-limit test fires, every return carries IsComplete == false; (a2) with completion hooks registered, every return of value completion is incomplete; (b) the value compared with maxCandidates is a dedicated counter initialised to len(list)/0-on-empty, advanced after every single append, re-initialised after bulk appends, and appends are dominated by the test; (c) no NewText of a TextEdit/CompletionData literal derives from snippet text; (d) every CompletionData literal returns the nested data's NextPlaceholder or counter+number-of-tab-stops, and nested data is requested with the threaded counter.",
   note="Does not decide: that the edit range starts at/before and reaches the cursor (position values; partially covered under C02), numbering inside non-constant formats, the exact bound value, behaviour of user hooks.",
   ref="DESIGN.md §3 C06, Appendix A"),
}
NA = {}
ALL = ["C%02d" % i for i in range(1, 21)]
def main():
    checks = []
    for pid in ALL:
        if pid not in CLAIMS: continue
        c = CLAIMS[pid]
        checks.append({
            "property_id": pid,
            "quick_cmd": f"bin/hclverif -property {pid} -tier quick",
            "thorough_cmd": f"bin/hclverif -property {pid} -tier thorough",
            "evidence_file": f"/verif/evidence/{pid}.json",
            "replay_cmd_template": "bin/hclverif -replay {path}",
            "engine": "hclverif",
            "level_claimed": {"category": "other", "text": c["text"], "design_ref": c["ref"]},
            "level_note": c["note"],
            "technique": c["technique"],
        })
    na = [{"property_id": p, "reason": NA.get(p, "check not built yet in this round; see DESIGN.md §3 for the planned structural clauses")} for p in ALL if p not in CLAIMS]
    m = {
        "version": 1,
        "setup_cmd": f"cd /verif/checker && env {ENV} go build -o /verif/bin/hclverif .",
        "hooks": {"guard": "verif", "enable": "none needed: the checks are static and read /repo's working tree as it is (no instrumentation, no build tag used)",
                  "baseline_off_cmd": f"cd /repo && env {ENV} go test -vet=off -count=1 ./...",
                  "source_commits": [], "add_only": True},
        "engines": [{"name": "hclverif", "path": "/verif/checker", "serves_properties": [c["property_id"] for c in checks],
                     "kind_free_text": "repository-specific static analyser (go/packages + go/types + go/cfg + go/ssa): rule engines E1..E8 of DESIGN.md"}],
        "checks": checks,
        "not_applicable": na,
        "notes": "All checks are static analyses of /repo's current working tree; none executes hcl-lang code. Known findings: /verif/known_findings.json.",
    }
    json.dump(m, open("/verif/MANIFEST.json", "w"), indent=1)
    try:
        import jsonschema
        jsonschema.validate(m, json.load(open("/root/.vp/MANIFEST.schema.json")))
        print("MANIFEST valid;", len(checks), "claimed,", len(na), "not applicable")
    except ImportError:
        print("jsonschema missing; not validated")
if __name__ == "__main__":
    main()
