#!/usr/bin/env python3
"""Regenerates /verif/MANIFEST.json from the per-property table below and validates it."""
import json, sys, os
ENV = "GOFLAGS=-mod=mod GOPROXY=off GOSUMDB=off GOTOOLCHAIN=local GOWORK=off"
CLAIMS = {
 "C17": dict(
   technique="static analysis: go/types field enumeration + go/cfg dominance over every Copy method (coverage, aliasing, nil/index safety)",
   text="Structural necessary conditions of C17 decided statically for every Copy method of schema/lang: every struct field (present and future, from go/types) is assigned in the result; no map/slice/pointer field nor container element is the receiver's own storage; receivers are nil-guarded; element stores are index-safe. Decides the mechanism, not value-level equality.",
   note="Trusts go/types+go/cfg; immutability of constraints, addresses, cty values is taken from the property statement; nil-vs-empty equality not decided.",
   ref="DESIGN.md §2 E5, §3 C17"),
 "C03": dict(
   technique="static analysis: map-iteration-order taint with inter-procedural 'unordered result' summaries to a fixed point (go/cfg paths to sort calls), strict-weak-order decision of every comparator by finite abstraction, who-may-call rules for nondeterminism sources and post-init state",
   text="Structural necessary conditions of C03 decided statically: every range over a Go map (59 sites) is classified; every slice filled in map order crosses a sort on every CFG path before a public API returns it or it is embedded in a result (internal collectors move the obligation to all callers); every comparator (3 Less methods, 8 sort closures) is proved a strict weak order by enumerating all weak orderings of three abstract elements per key; no ambient nondeterminism source is called; no package-level or decoder-level state is written after construction and no query writes memory that existed before it (ownership engine E3: history independence); comparators read their keys from the slice being sorted and order positions by byte offset.",
   note="Does not decide tie-freedom of sort keys on real data, nor the cross-type order of JSON blocks returned by hcl; trusts go/types+go/cfg, the stated hclsyntax disjoint-range assumption for first-match returns, and that third-party callees are deterministic.",
   ref="DESIGN.md §2 E2, §3 C03"),
 "C01": dict(
   technique="static analysis: guard-completeness of five panic families over every function (go/cfg dominance + path search, alias-aware access paths, Fourier-Motzkin bounds prover, inter-procedural preconditions and summaries) + structural-descent termination analysis over the call graph's recursive components (lexicographic size-change argument with function summaries) and loop-progress proofs",
   text="Structural necessary conditions of the no-panic clause of C01, decided for every function of the module: P1 every panicking cty.Value/cty.Type accessor is dominated by a kind guard (plus non-null and known guards for configuration-evaluated values); P2/P3 every index and slice expression is proved in bounds by a linear-arithmetic prover over dominating facts, loop facts, local definitions and stated parser/cursor axioms; P4 every single-value type assertion has a dominating type test or a re-checked pairing premise (walker/validator kind pairing, no typed nil); P5 every dereference of an optional reference is reached only through a non-nil-establishing edge on every CFG path. Unproved uses of parameters become preconditions discharged at all in-module call sites. Termination clause (E14): in each of the 43 recursive components of the module's call graph (static calls + interface dispatch to all implementers, refined by the constructed receiver type) the 371 recursive call sites are ordered lexicographically by (syntax tree, schema/type, data) — calls passing a strictly smaller syntax argument are removed, no remaining call may pass a possibly larger one, the remaining cycles must descend in (cty constructors, schema constructors), and so on; one-shot recursion guarded by a flag and the fresh empty-expression leaf are recognised; the two non-range loops advance by the size of a rune decoded from a provably non-empty slice; hcl-lang builds no syntax nodes other than the childless leaf.",
   note="Does not decide: termination of third-party code and user hooks, termination on cyclic schemas/types (assumed finite trees), integer overflow, panics inside hcl/cty beyond the modelled accessor contracts, stack depth, user hooks/validators. Assumes schema-owned cty values are known and non-null, schema collections hold no nil entries, parser ranges lie within the file, cursor within file (entry check).",
   ref="DESIGN.md §2 E4, §3 C01"),
 "C04": dict(
   technique="static analysis: ownership/freshness classification of every write site (immutable < deep-fresh < fresh < shared) with parameter-symbolic summaries (writes-through, result-as-fresh-as-argument, per-field results) to a fixed point over the module; who-may-call rules for package- and decoder-level state",
   text="Structural necessary condition of C04 decided for every write in the module (≈455 sites: stores through pointers/maps/slices, appends into existing backing arrays, delete, copy, in-place sorts): the written memory is allocated in the current call tree (fresh), and writes below the first pointer hop require a deep-fresh root (a deep Copy result, make/new, literals of such, not demoted by stored shared pointers). Writes through parameters become summaries re-judged at every call site; any path from a public API entry point with caller-owned data to such a write is reported at the originating write. Also: append results bound to another variable (aliasing slices), package-level and decoder-level state writes.",
   note="Flow-insensitive per variable (joins over all assignments); third-party callees assumed read-only on arguments except sort/append/copy; constraints/defaults/cty values immutable by contract; addresses may be shared by copies but writes through them are judged; user hooks/validators out of scope.",
   ref="DESIGN.md §2 E3, §3 C04"),
 "C05": dict(
   technique="static analysis: same ownership engine as C04 (no write to pre-existing or package-level memory ⇒ all memory shared between concurrent queries is read-only) plus goroutine/select/global-state who-may-call rules",
   text="Data-race freedom of concurrent queries follows structurally if no instruction reachable from a query writes memory that existed before the query or package-level memory: then every location shared between two queries is read-only and every written location is confined to one goroutine. The check decides exactly that (engine E3 over every write site, global/decoder state rules), and that no goroutine is spawned and no select is used. Equality with the sequential result is then C03's determinism clause (checked under C03).",
   note="Races inside hcl/cty on shared AST nodes are assumed absent (read-only accessors); user callbacks out of scope; the memory-model argument is stated in DESIGN.md, not mechanised.",
   ref="DESIGN.md §2 E3, §3 C05"),
 "C06": dict(
   technique="static analysis: typestate of the IsComplete flag along CFG paths from limit/hook tests, counter-discipline check of the candidate limit, placeholder threading by data-derivation and linear arithmetic on tab-stop numbers, NewText/Snippet separation by data-derivation",
   text="Structural necessary conditions of C06 decided statically: (a) after a candidate-limit test fires, every return carries IsComplete == false; (a2) with completion hooks registered, every return of value completion is incomplete; (b) the value compared with maxCandidates is a dedicated counter initialised to len(list)/0-on-empty, advanced after every single append, re-initialised after bulk appends, and appends are dominated by the test; (c) no NewText of a TextEdit/CompletionData literal derives from snippet text; (d) every CompletionData literal returns the nested data's NextPlaceholder or counter+number-of-tab-stops, and nested data is requested with the threaded counter.",
   note="Does not decide: that the edit range starts at/before and reaches the cursor (position values; partially covered under C02), numbering inside non-constant formats, the exact bound value, behaviour of user hooks.",
   ref="DESIGN.md §3 C06, Appendix A"),

 "C02": dict(
   technique="static analysis: position-arithmetic rules over every hcl.Range/hcl.Pos construction and mutation in the completion code (go/types + go/cfg dominance): endpoint ordering, byte-vs-column agreement, derivation of edit ranges from the cursor",
   text="Structural necessary conditions of C02 decided statically for every range built or changed in the completion paths: (a) a range whose End is set to the cursor has its Start proved at or before the cursor on every CFG path (dominating ContainsPos/ordering test or Start derived from the cursor by a non-negative byte count); (b) when Column and Byte of one position are shifted, both are shifted by the same expression, and that expression is not a byte length applied as a column count over text that may contain multi-byte characters or newlines; (c) every TextEdit range literal is derived from the cursor or from a parser range that contains it. Decides the mechanism of range construction, not the filtered candidate set.",
   note="Known findings (9 sites) are listed in known_findings.json: edit ranges whose Start is not proved before the cursor, and byte-length used as column shift. Prefix filtering (case-sensitive HasPrefix) is checked under C07/C08/C15 rows, not here. Unicode column semantics beyond byte/column agreement are not decided.",
   ref="DESIGN.md §2 E6, §3 C02"),
 "C07": dict(
   technique="static analysis: obligation rows (emission site => dominating guard set, with 'no extra data filter' exactness) decided on go/cfg with condition decomposition, over body/attribute/block/label candidate emission",
   text="Structural necessary conditions of C07 decided statically through a reviewed table of rows: each candidate emission in body completion (attribute candidates, block candidates, label candidates, dependent-body candidates) is reached only across the guards the property names (attribute still declarable: not read-only and not already present; block below a non-zero MaxItems and no attribute of that name; prefix match; label carried by a dependent-body key at that index; descent only into known blocks containing the cursor with the merged schema) and across no other data-dependent filter; iteration covers the whole schema map; results are sorted before return. Row population minima make the check fail when an anchor moves.",
   note="Rows are a reviewed specification of the guards (see checker/e1_tables.go, one reason per row); the check decides guard presence/absence on all CFG paths, not the values the guards compute.",
   ref="DESIGN.md §2 E1, §3 C07"),
 "C08": dict(
   technique="static analysis: obligation rows over value-completion emission sites, constraint->expression dispatch totality (go/types enumeration of Constraint implementers vs newExpression switch), who-may-call rule for candidate constructors, cross-file range-compare rule",
   text="Structural necessary conditions of C08 decided statically: every value candidate emission (bool/keyword/function/reference/type candidates) is guarded by the prefix test and exactly the visibility/constraint guards the property names; reference visibility predicates (localTargetMatches/absTargetMatches) return true only across all of prefix, self-gating, block-local range and constraint match; every schema.Constraint implementer is dispatched by newExpression to an expression type implementing the completion capability; candidate literals of each kind are built only in their owning function; byte-offset range comparisons between targets and origins are preceded by a Filename equality.",
   note="One known finding (Target.Address compares ranges across files without a filename test). Does not decide the content of candidate text or type-conversion results.",
   ref="DESIGN.md §2 E1/E7, §3 C08"),
 "C09": dict(
   technique="static analysis: obligation rows over target emission sites; TargetContext threading rules (field agreement of every Target literal with its context, child context = Copy()+exactly one loop-keyed step with equal local step, element ranges derived from the element, no store through a shared *hcl.Range); append-alias/ownership engine; Copy coverage engine; map-order engine",
   text="Structural necessary conditions of C09 decided statically: every target emission in decodeReferenceTargetsForBody/ForAttribute and the per-constraint ReferenceTargets methods is reached exactly across the schema marks the property names (known block/attribute, resolvable address, AsReference/AsTypeOf/BodyAsData/DependentBodyAsData+successful lookup/SupportUnknownNestedRefs/TargetableAs, AsExprType+known type); every reference.Target literal built from a TargetContext takes Addr, LocalAddr, ScopeId, TargetableFromRangePtr, DefRangePtr and RangePtr from that context; each child context is a Copy() of its parent extended by exactly one step on every path, the step's key derives from the loop's own index/key, and ParentLocalAddress receives the same step; element ranges derive from the element through selectors and pure range accessors only; no append result aliases another live address; BlockAddrSchema/AttributeAddrSchema Copy methods keep every field; results are sorted after the last append.",
   note="Two known findings (first list/map element's range is widened through a shared pointer). Does not decide inferred cty types value-by-value, nor that source order equals index order beyond the loop-index derivation.",
   ref="DESIGN.md §3 C09"),
 "C10": dict(
   technique="static analysis: obligation rows over origin emission sites, expression capability table (go/types: which expression types implement ReferenceOriginsExpression vs which constraints may hold references), child-coverage of expression walkers, map-order engine",
   text="Structural necessary conditions of C10 decided statically: origins are collected only for attributes the schema knows; path/direct origins are emitted exactly under the schema marks the property names; self.* origins only where the body schema enables SelfRefs; block descent uses the merged schema; OneOf de-duplication merges only on equal address and range; implied origins only on equal address; results are sorted by file and position after the last append; every expression type whose constraint can contain references implements the origins capability and forwards to each child expression it holds.",
   note="Does not decide the content of traversal-to-address conversion nor constraint sets value-by-value.",
   ref="DESIGN.md §2 E1/E7, §3 C10"),
 "C11": dict(
   technique="static analysis: obligation rows showing both resolution directions call the one shared predicate Target.Matches with no additional filter; cross-file range-compare rule in package reference",
   text="Structural necessary conditions of C11 decided statically: go-to-definition (Targets.Match) and find-references (Origins.Match, ReferenceOriginsTargetingPos) collect exactly the pairs for which the same Target.Matches(origin) holds plus path equality, with no other data filter between the predicate and the append; find-references descends into nested targets; path origins resolve only in their target path; block-local gating lives inside the shared predicate; byte-offset containment between ranges of possibly different files is preceded by a Filename test.",
   note="One known finding (Target.Address). Symmetry is decided as 'same predicate, no extra filter', not by evaluating the predicate.",
   ref="DESIGN.md §2 E1, §3 C11"),
 "C12": dict(
   technique="static analysis: containment induction over every HoverData literal (range derives from an AST node whose range was tested to contain the cursor), obligation rows for attribute/block/label hover, child-coverage of hover walkers",
   text="Structural necessary conditions of C12 decided statically: every HoverData returned from the hover paths carries a Range derived from a syntax node for which a dominating ContainsPos/ContainsOffset(pos) test holds on every CFG path (induction over the recursive descent); unknown attribute/block errors are produced exactly when the schema lacks the item; label hover only for declared labels; descent into a block uses the merged schema; every expression hover implementation forwards to each child expression it holds.",
   note="One known finding (index expression collection not descended). Hover content text is not decided.",
   ref="DESIGN.md §2 E8, §3 C12"),
 "C13": dict(
   technique="static analysis: obligation rows over token emission sites, token type table agreement (constants used in literals vs lang.SupportedSemanticTokenTypes), search-loop-continues rule, child-coverage of token walkers, append-alias and map-order engines",
   text="Structural necessary conditions of C13 decided statically: every semantic-token emission is guarded by the schema marks the property names (known attribute/block/label, dependency-key modifier only for dep keys, reference tokens only for resolved targets); every token Type constant used in a SemanticToken literal is an element of lang.SupportedSemanticTokenTypes; loops that search targets for a reference continue past non-matching candidates; every expression token implementation forwards to each child expression; tokens are sorted after the last append; no append aliases another token slice.",
   note="One known finding (index expression collection). Token ranges are checked for derivation from syntax nodes, not for pairwise disjointness by value.",
   ref="DESIGN.md §2 E1/E7, §3 C13"),
 "C15": dict(
   technique="static analysis: obligation rows over validator diagnostics emission + walker/validator kind pairing (type assertions justified by the walker's dispatch)",
   text="Structural necessary conditions of C15 decided statically: each built-in validator emits its diagnostic exactly under the schema condition the property names (deprecated, missing required, unexpected attribute/block, label count, MinItems/MaxItems) and across no other data filter; type assertions in validators are justified by the walker's dispatch (kind pairing); the walker marks bodies without schema and blocks with failed/partial dependent lookups as unknown-schema (which silences the 'unexpected' validators) and validates known block bodies against the merged schema.",
   note="Diagnostic text and ranges are not decided beyond derivation from the offending node.",
   ref="DESIGN.md §2 E1, §3 C15"),
 "C18": dict(
   technique="static analysis: position-construction rules (E6) over every hand-built hcl.Pos/hcl.Range, cross-file compare rule, decoder-state who-may-call rule",
   text="Structural necessary conditions of C18 (translation invariance) decided statically: (a) every hcl.Pos literal and every in-place shift of a position takes Line, Column and Byte from one base position and shifts Column and Byte by the same amount (a position assembled from another position's Column as Byte, or from mixed bases, stops moving with the text as soon as a line is inserted above); ranges whose end is moved to the cursor keep Start <= End; byte lengths are not used as column counts; (b) byte offsets of two ranges are compared only after their Filenames were compared (otherwise inserting bytes into one file changes results computed for another); (c) no package-level or decoder-level state is written while answering a query (no cached absolute offsets).",
   note="Shares E6 and its 9 known findings with C02, and the Target.Address finding with C08/C11. Does not decide what the parser recovers around the cursor, nor that every query result position derives from parser ranges beyond the literals and shifts examined.",
   ref="DESIGN.md §2 E6, §3 C18"),
 "C14": dict(
   technique="static analysis: obligation rows over symbol emission sites (exactly one per written item, no filter), reviewed field-source table for every Symbol literal, fault-isolation rule for the loop over all paths, JSON remainder rule in ast.DecodeBody, comparator position-key rule, map-order engine",
   text="Structural necessary conditions of C14 decided statically: symbolsForBody appends exactly one AttributeSymbol per decoded attribute and one BlockSymbol per decoded block with no data filter; nestedSymbolsForExpr appends one symbol per tuple element and one per object item with a known non-null string key; each Symbol literal takes its name, kind, range and nested symbols from the syntax item of its own loop iteration and the accessors return those fields; the result is sorted after the last append by a comparator that orders by byte offset (a total order on one file), reading its keys from the sorted slice; the workspace query appends a symbol exactly when the query is empty or contained in its name, over all files of all paths; inside the loop over all paths a failing path is skipped with continue and nothing else leaves the loop; for JSON, attributes outside the schema are taken from the remainder of PartialContent so no item is decoded twice.",
   note="Range nesting of children inside parents is a property of the parser's ranges and is not decided; nor are symbol kinds of JSON expressions. The JSON remainder rule accepts only the remainder idiom (an explicit re-filtering of already-decoded names would need a reviewed exception).",
   ref="DESIGN.md §3 C14"),
 "C16": dict(
   technique="static analysis: key-canonicity rules (every marshalled slice field sorted; comparator is a strict weak order reading its keys from the sorted slice; SchemaKey built only from DependencyKeys.MarshalJSON), lookup-result consumer agreement, shared descent rows of all seven features, ownership engine on the schema lookup path, Copy coverage",
   text="Structural necessary conditions of C16 decided statically: DependencyKeys.MarshalJSON sorts every slice field it marshals (labels by index, attributes by name) with comparators that are strict weak orders over the slice being sorted; every conversion to schema.SchemaKey takes the bytes of that MarshalJSON (so registration via NewSchemaKey and lookup in DependentBodySchema agree); every consumer that accepts LookupSuccessful among alternatives also accepts LookupPartiallySuccessful; completion, hover, semantic tokens, reference targets, reference origins, validation (walker) and label hover all descend into a block with the schema returned by MergeBlockBodySchemas (shared rows), and links are emitted for labels/attributes of the selecting keys under the same result kinds; the second-level lookup happens only for found first-level bodies with dependency-key attributes; the lookup path writes no shared schema memory (the temporary block schema is a Copy) and BlockSchema/BodySchema Copy methods keep every field.",
   note="Injectivity of the JSON encoding of key values (cty -> JSON) is not decided; nor that dependencyKeysFromBlock reads the right values for every expression form (covered only as far as C01/C15 rows).",
   ref="DESIGN.md §3 C16"),
 "C19": dict(
   technique="static analysis: obligation rows over the JSON-only branches (ToHCLSchema totality, rawObjectKey JSON branch), sibling agreement of the JSON single-interpolation test between origins and targets, independent-expectation rule, JSON remainder rule, position-arithmetic engine restricted to the JSON branches",
   text="Structural necessary conditions of C19 decided statically (the part of JSON/native agreement that is visible in hcl-lang's own code): ToHCLSchema hands every attribute and every block type of the schema to hcl with no filter, so nothing written in JSON is silently undecodable; ast.DecodeBody takes extra attributes from the remainder of PartialContent (no item decoded twice); a JSON object key is accepted exactly when it evaluates, as a template with an empty evaluation context, to a known non-null string (no further filter); the test 'this JSON string is exactly one ${traversal}' is the same in Reference.ReferenceOrigins and Reference.ReferenceTargets and constrains both ends of the string (neither end of the expected range is taken from the expression it is compared with); hand-built positions in the JSON branches shift column and byte coherently.",
   note="Equality of the two syntaxes' results is NOT decided: it depends on hcl's JSON parser and on runtime values. Only the listed shape conditions of hcl-lang's JSON-specific branches are; each is necessary (breaking it makes a JSON document diverge from its native twin).",
   ref="DESIGN.md §3 C19"),
 "C20": dict(
   technique="static analysis: obligation rows over the signature visitor (assignments to the result and to the active parameter, parameter list construction), visitor-statelessness rule (captured variables written and read), inside-parentheses guard derivation",
   text="Structural necessary conditions of C20 decided statically: a signature is assigned only for a FunctionCallExpr node containing the cursor whose name is a known function; a signature with parameters only after ContainsPos on RangeBetween(OpenParenRange, CloseParenRange) of that same call; the visitor callback reads no captured variable that it writes (so each matching node overwrites the result — innermost pre-order match wins — and nothing computed for one call leaks into another); the active parameter is set to the index of the argument containing or ending at the cursor, to lastArgIdx+1 exactly under the trailing-comma recovery, and clamped to paramsLen-1 exactly when it is >= paramsLen; the parameterised signature is unreachable when the index is beyond the parameters and there is no variadic one; the parameter list is one entry per fixed parameter plus the variadic one when present.",
   note="Does not decide the arithmetic claim 'always a valid index' value-by-value (needs a path-sensitive join of the clamp; the guard structure that implies it is checked), nor what recoverLeftBytes returns for every byte sequence (CRLF, spaces without comma).",
   ref="DESIGN.md §3 C20"),
}
NA = {}
E15_PROPS = {"C07","C08","C09","C10","C11","C12","C13","C14","C15","C16","C19","C20"}
E15_TEXT = " Also decided for the whole module as necessary conditions of this property: no comparison has the same expression on both sides; no loop that collects results from every element breaks on a per-element miss; sibling collections of one owner are indexed by the loop's own index; variables classifying the current loop element are assigned in the same iteration before they are read; the feature walkers of Any expressions give each child of a syntax node kind the same constraint (reviewed divergences excepted); no query writes memory that existed before it (ownership engine: append-alias and escaping-write rules); no copy() into a zero-length destination; no string test normalises the case of one side only; self-recursive calls pass their own parameters in their own positions; no field of a struct value is updated after the value was copied out unless it is copied out again compatibly (lost updates); no dead store to a local; an inner search flag starts false for every element of the enclosing loop; a context enriched for one body is not passed to the descent into nested bodies; a variable read after a loop records the current element only where no conditional break of that loop can follow in the same iteration; a local with a default and one conditional override in a later sibling if is not read between the two when it is read after the override; a type read from the receiver's constraint is never the source of a cty conversion check; no inner search loop resumes at an index carried over from the previous outer iteration; every dependent-body lookup receives the parsed block (never a literal without Body)."
ALL = ["C%02d" % i for i in range(1, 21)]
def main():
    checks = []
    for pid in ALL:
        if pid not in CLAIMS: continue
        c = dict(CLAIMS[pid])
        if pid in {"C02","C18"}:
            c["text"] = c["text"] + " Also: an hclsyntax lexer/parser started at the initial position is given a whole file's bytes (never a sub-slice), and a range stripped of delimiters at both ends comes from a syntax element that always has them."
        if pid in {"C03","C10","C13","C14","C16"}:
            c["text"] = c["text"] + " Stable-sort clause: the sort that puts a map-ordered slice into its final order is stable, sorts indistinguishable scalars, or has a comparator that cannot tie (stated per site)."
        if pid in {"C12","C02","C06","C08","C13"}:
            c["text"] = c["text"] + " No method of an expression type re-points its receiver's expr/cons (the premise of the position induction)."
        if pid == "C06":
            c["text"] = c["text"] + " (h) the placeholder counter advances only where the counted fragment's snippet was stored."
        if pid == "C06":
            c["text"] = c["text"] + " (g) a snippet numbered from a running placeholder counter contains the nested fragments that advanced the counter (a fallback that drops them numbers from the start value)."
        if pid in {"C01","C09","C10","C14"}:
            c["text"] = c["text"] + " Error discipline (E17): for every `x, err := f(…)` on a module function with a nil-able x, each dereferencing use of x is reached only after err == nil was established for that assignment."
            c["technique"] = c["technique"] + "; path-sensitive error-check dominance rule (E17.unchecked-result)"
        if pid == "C19":
            c["text"] = c["text"] + " Sibling cross-check: within the implementations of one expression-interface method, all hcl Expression.Value calls agree on nil vs non-nil evaluation context (JSON strings are template-parsed only with a context)."
            c["technique"] = c["technique"] + "; sibling-implementation cross-check of evaluation contexts (E13.sibling-eval-context)"
        if pid in {"C08","C09","C10","C12","C13"}:
            c["text"] = c["text"] + " Sibling ladders (E13.any): the feature methods of decoder.Any and decoder.LiteralType each have a rung for list/set/tuple/map/object; every rung builds the constraint kind it tested, asserts the syntax node that can hold it, hands the tested type's element type(s) down (literal-only in LiteralType), agrees with its siblings on the remaining constraint fields, is gated by a constraint flag only where reviewed (completion's Skip…ComplexTypes), and every feature reaches a handler for each syntactic form its siblings handle."
            c["technique"] = c["technique"] + "; sibling-ladder cross-check over decoder.Any/LiteralType (E13.any-delegation, E13.any-forms)"
        if pid in {"C06","C07","C08"}:
            c["text"] = c["text"] + " Prefix source (E8.prefix-source): the prefix argument of every strings.HasPrefix candidate filter, followed backwards through locals and call sites of unexported helpers, never derives from a schema value."
            c["technique"] = c["technique"] + "; backward data-source trace of completion prefixes (E8.prefix-source)"
        if pid in {"C09","C10","C14"}:
            c["text"] = c["text"] + " Skip rows (E1.skip-row): in resolveBlockAddress a step is left out (continue before the append) only when the attribute is absent and the step optional."
        if pid == "C14":
            c["text"] = c["text"] + " BlockSymbol.Name is the block type followed by every label, Go-quoted with %q / strconv.Quote (no other transformation of the label text)."
        if pid in E15_PROPS | {"C17","C04"}:
            c["text"] = c["text"] + " A slice made with a non-zero length is filled by index or copy and is not appended to while its made elements are never stored into (E15.append-after-sized-make)."
        if pid in {"C02","C18","C09","C10"}:
            c["text"] = c["text"] + " A parser started at a position inside the file is given the file's bytes, or a decoded value only under a guard that its length equals the byte length of the quoted source (E6.decoded-text-positions; two known findings)."
        if pid in {"C17","C04"}:
            c["text"] = c["text"] + " No Copy method sorts, and none copies elements under a condition other than a nil test (E5.copy-order, E5.copy-filter)."
        if pid == "C01":
            c["text"] = c["text"] + " A pointer parameter is as optional as what an in-module caller hands it (an optional field passed on unchecked keeps its obligation inside the callee); index goals over locals re-assigned under a test are decided path-sensitively (weakest precondition over every CFG path)."
        if pid == "C01":
            c["text"] = c["text"] + " A pointer returned next to an error by an interface method or a function outside the module is treated as nil unless the error was tested; the result of a module helper that counts up to the length of its operand is bounded by that length."
        if pid == "C03":
            c["text"] = c["text"] + " In a loop over a map or a still map-ordered slice, a map store of an iteration-dependent value needs a key injective in the range key, and a variable from outside the loop that some iterations set is not read by the body before the current iteration set it (E2.order-sensitive-exit: derived key, sticky state)."
        if pid in {"C01","C17"}:
            c["text"] = c["text"] + " No == / != between two interface values whose interface has a non-comparable implementer in the module (E4.P6)."
        if pid in {"C09","C10","C12","C13","C14"}:
            c["text"] = c["text"] + " The E6 position-literal rules (Column and Byte of one base shifted by the same constant, no component assigned alone, one file per range) hold for the constructs in this feature's files and functions."
        if pid == "C20":
            c["text"] = c["text"] + " FunctionSignature.Copy copies every field on every path (E5, signatures reach SignatureAtPos through it); the scans recoverLeftBytes / recoverRightBytes leave their loop only where the caller's predicate matched (E1.skip-row)."
        if pid in {"C07","C16"}:
            c["text"] = c["text"] + " Schema keys are decoded with the tolerant json.Unmarshal; no json.Decoder is configured with DisallowUnknownFields (E11.key-reader)."
        if pid in {"C06","C07","C08","C11","C12","C20","C02"}:
            c["text"] = c["text"] + " No function assigns its hcl.Pos parameter, a component of it, or takes its address (E8.cursor-unchanged)."
        if pid in E15_PROPS:
            c["text"] = c["text"] + " Two loops over one collection that each add a fragment per element to one accumulator are not both run on one path without re-initialising it (E15.double-accumulation); a search loop with a false fallback does not return a callee's (value, ok) pair unexamined (E15.search-forwards-miss)."
        if pid in E15_PROPS:
            c["text"] = c["text"] + " A collecting loop that skips items through a seen-set keys the set by the collected item itself (E15.partial-key-dedup, one reviewed exception); the walkers of one syntax node kind agree on the produced type they check against the constraint (E15.conversion-source-siblings); a return forwarding a result of a self-recursive call forwards all of them (E14.result-position); adjacent ifs on two boolean fields of one object do not plainly assign different values to one variable (E16.flag-overwrite); the fallback decoders built by decoder.Any take expression, path context and type from the receiver (E13.any-fallbacks)."
        if pid in E15_PROPS:
            c["text"] = c["text"] + " A text (string/Builder/Buffer) appended to in a loop nested in an outer loop's body and read once per outer element is re-initialised per element or is a whole-result accumulator (E15.carried-accumulator); a collecting loop is not left by returning the partial collection on a per-element miss (E15.collect-all, returns); homogeneous containers (List/Set/Tuple/Map) hand their children the same constraint in every feature (E15.sibling-child-constraint)."
        if pid in E15_PROPS:
            c["text"] = c["text"] + E15_TEXT
            c["technique"] = c["technique"] + "; module-wide loop/comparison discipline rules (E15) and ownership engine"
        checks.append({
            "property_id": pid,
            "quick_cmd": f"bin/hclverif -property {pid} -tier quick",
            "thorough_cmd": f"bin/hclverif -property {pid} -tier thorough",
            "evidence_file": f"/verif/evidence/{pid}.json",
            "replay_cmd_template": "bin/hclverif -replay {path}",
            "engine": "hclverif",
            "level_claimed": {"category": "other", "text": c["text"], "design_ref": c["ref"]},
            "level_note": c["note"],
            "technique": c["technique"],
        })
    na = [{"property_id": p, "reason": NA.get(p, "check not built yet in this round; see DESIGN.md §3 for the planned structural clauses")} for p in ALL if p not in CLAIMS]
    m = {
        "version": 1,
        "setup_cmd": f"cd /verif/checker && env {ENV} go build -o /verif/bin/hclverif .",
        "hooks": {"guard": "verif", "enable": "none needed: the checks are static and read /repo's working tree as it is (no instrumentation, no build tag used)",
                  "baseline_off_cmd": f"cd /repo && env {ENV} go test -vet=off -count=1 ./...",
                  "source_commits": [], "add_only": True},
        "engines": [{"name": "hclverif", "path": "/verif/checker", "serves_properties": [c["property_id"] for c in checks],
                     "kind_free_text": "repository-specific static analyser (go/packages + go/types + go/cfg, own dominator/fact layer, Fourier-Motzkin bounds prover): rule engines E1..E13 of DESIGN.md Part I"}],
        "checks": checks,
        "not_applicable": na,
        "notes": "All checks are static analyses of /repo's current working tree; none executes hcl-lang code. Thorough tier = second build configuration (GOARCH=386) + self-validation against /verif/seeded (scratch copies under the system temp dir, removed afterwards) + the quick analysis. Known findings: /verif/known_findings.json. The idiom-deviation rules E15.* / E16.* are applied to functions of the reviewed inventory and to helpers those call; functions added later and reachable only from such additions are covered by the safety rules (E2-E6, E14) only (DESIGN.md §I.24).",
    }
    json.dump(m, open("/verif/MANIFEST.json", "w"), indent=1)
    try:
        import jsonschema
        jsonschema.validate(m, json.load(open("/root/.vp/MANIFEST.schema.json")))
        print("MANIFEST valid;", len(checks), "claimed,", len(na), "not applicable")
    except ImportError:
        print("jsonschema missing; not validated")
if __name__ == "__main__":
    main()
