"""Throw-away Go build cache for analyses of scratch copies.

Every scratch copy of /repo compiles the module's packages afresh (go build, and the
export data go/packages asks for); in the user's build cache that is several MB per
variant which Go only trims after days. The development matrices run hundreds of
variants, so they use a temporary GOCACHE (seeded with a copy of the current one when
that is small, so dependencies are not recompiled) and remove it at exit."""
import os, subprocess, shutil, tempfile, atexit

def scratch_gocache(env):
    src = subprocess.run(["go", "env", "GOCACHE"], capture_output=True, text=True, env=env).stdout.strip()
    d = tempfile.mkdtemp(prefix="hclverif-gocache-")
    try:
        mb = int(subprocess.run(["du", "-sm", src], capture_output=True, text=True).stdout.split()[0])
    except Exception:
        mb = 1 << 30
    if src and os.path.isdir(src) and mb < 1024:
        subprocess.run(["rsync", "-a", src + "/", d + "/"], capture_output=True)
    owner = os.getpid()
    def cleanup():
        if os.getpid() == owner:
            shutil.rmtree(d, ignore_errors=True)
    atexit.register(cleanup)
    return d
